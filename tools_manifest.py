"""Regenerates MANIFEST.json from the table below (run: /venv/bin/python tools_manifest.py)."""
import json, os

PY = "/venv/bin/python -m bbverif.check"
CHECKS = {}   # id -> dict(category, text, note, technique, design)
NA = {}

def claim(i, category, technique, text, note, design):
    CHECKS[i] = dict(category=category, technique=technique, text=text, note=note, design=design)

exec(open(os.path.join(os.path.dirname(__file__), "manifest_claims.py")).read())

props = [json.loads(l)["id"] for l in open(os.path.join(os.path.dirname(__file__), "properties.jsonl"))]
man = {
    "version": 1,
    "setup_cmd": "/venv/bin/python -c \"import bbverif.check, bbverif.gram.model; print('bbverif ready')\"",
    "hooks": {
        "guard": "BLACKBIRD_VERIF",
        "enable": "no hooks: every check reads /repo's sources (ast, grammar, serialised ATN) and imports nothing from it",
        "baseline_off_cmd": "cd /repo && /venv/bin/python -m pytest -ra -q -p no:cacheprovider --timeout=900 --continue-on-collection-errors",
        "source_commits": [],
        "add_only": True,
    },
    "engines": [
        {"name": "G/A/K grammar, ATN and generated-code model", "path": "bbverif/gram", "serves_properties": ["C14", "C18", "C10", "C03", "C02", "C05"],
         "kind_free_text": "own ANTLR meta-syntax parser, own ATN deserialiser, per-rule NFA equivalence, NEWLINE-skeleton DFA"},
        {"name": "P python program model and analyses", "path": "bbverif/py", "serves_properties": [p for p in props if p not in ("C14", "C17")],
         "kind_free_text": "ast-based symbol index, context typing, effects/provenance, unordered-flow, typestate, guards, exhaustiveness, sibling agreement"},
    ],
    "checks": [],
    "not_applicable": [],
    "notes": "Static analysis only. exit 0 = all rule instances discharged; exit 1 + VIOLATION = a rule instance positively refuted; exit 2 = ANALYSIS-ERROR/INCONCLUSIVE (never a verdict). Every check except C14 additionally runs the cross-cutting rules MEMO.1 / HAZ.1 / HAZ.2 / HAZ.3 / DECO.1 and the shared load-side rules C10.2 / C07.1 / C15.1 (rules/crosscut.py, DESIGN.md 15.5) over the functions reachable from the property's entry points. See DESIGN.md.",
}
for p in props:
    if p in CHECKS:
        c = CHECKS[p]
        man["checks"].append({
            "property_id": p,
            "quick_cmd": "%s %s --tier quick" % (PY, p),
            "thorough_cmd": "%s %s --tier thorough" % (PY, p),
            "evidence_file": "/verif/evidence/%s.json" % p,
            "replay_cmd_template": "%s %s --tier quick --replay {path}" % (PY, p),
            "engine": "bbverif",
            "level_claimed": {"category": c["category"], "text": c["text"], "design_ref": c["design"]},
            "level_note": c["note"],
            "technique": c["technique"],
        })
    else:
        man["not_applicable"].append({"property_id": p, "reason": NA.get(p, "check not built yet in this session (static analysis planned, see DESIGN.md section 5)")})
json.dump(man, open(os.path.join(os.path.dirname(__file__), "MANIFEST.json"), "w"), indent=1)
print("claimed", sorted(CHECKS), "n/a", [x["property_id"] for x in man["not_applicable"]])
