"""Development helper: run the checks on the seeded / benign changes whose directory name contains the given tag (scratch copies, 16 jobs).

    /venv/bin/python tools_round.py r11m [--all]     seeded changes *r11m*: own check (with --all: every claimed check)
    /venv/bin/python tools_round.py B37 B38 ...      benign groups: every claimed check must stay at exit 0
"""
import glob, json, os, sys
from concurrent.futures import ThreadPoolExecutor
sys.path.insert(0, os.path.dirname(os.path.abspath(__file__)))
from bbverif import selftest, VERIF

claimed = [c["property_id"] for c in json.load(open(os.path.join(VERIF, "MANIFEST.json")))["checks"]]
tags = [a for a in sys.argv[1:] if not a.startswith("--")]
allp = "--all" in sys.argv
cases = []
for d in sorted(glob.glob(os.path.join(VERIF, "seeded", "*"))):
    n = os.path.basename(d)
    if any(t in n for t in tags) and os.path.exists(os.path.join(d, "patch.diff")):
        own = n.split("-")[0]
        if allp:
            for p in claimed:
                cases.append(("must-fire" if p == own else "info", n, os.path.join(d, "patch.diff"), [p]))
        else:
            cases.append(("must-fire", n, os.path.join(d, "patch.diff"), [own]))
for d in sorted(glob.glob(os.path.join(VERIF, "benign", "*"))):
    n = os.path.basename(d)
    if any(n == t or n.startswith(t + "-") for t in tags):
        for p in claimed:
            cases.append(("must-stay-silent", n, os.path.join(d, "patch.diff"), [p]))
res = {}
with ThreadPoolExecutor(16) as ex:
    for kind, name, err, r in ex.map(selftest.one, cases):
        if err:
            print("SKIP", name, err); continue
        for p, (rc, first) in r.items():
            res.setdefault((kind if kind != "info" else "must-fire", name), {})[p] = (rc, first, kind)
bad = 0
for (kind, name), r in sorted(res.items()):
    if kind == "must-fire":
        own = name.split("-")[0]
        rc, first, _ = r[own]
        others = sorted(p for p, v in r.items() if v[0] == 1 and p != own)
        flag = "ok  " if rc == 1 else ("INCONCLUSIVE" if rc == 2 else "MISSED")
        bad += rc != 1
        print("%-12s %s exit %d %s %s" % (name, flag, rc, first[:150], ("also: " + " ".join(others)) if others else ""))
    else:
        wrong = {p: v for p, v in r.items() if v[0] != 0}
        bad += bool(wrong)
        print("%-12s %s" % (name, "silent" if not wrong else "ALARM " + "; ".join("%s exit %d %s" % (p, v[0], v[1][:120]) for p, v in sorted(wrong.items()))))
print("unexpected:", bad, "of", len(res))
