"""Development helper: every benign change under every claimed check, one process per change (bbverif.checkall builds the index once)."""
import glob, os, shutil, subprocess, sys
from concurrent.futures import ThreadPoolExecutor
sys.path.insert(0, os.path.dirname(os.path.abspath(__file__)))
from bbverif import selftest, VERIF

def one(d):
    name = os.path.basename(d)
    root, err = selftest.scratch(os.path.join(d, "patch.diff"))
    if root is None:
        return name, "SKIP " + err
    try:
        env = dict(os.environ, BBVERIF_REPO=root, BBVERIF_EVIDENCE_DIR=os.path.join(root, "_evidence"), PYTHONPATH=VERIF)
        r = subprocess.run([sys.executable, "-m", "bbverif.checkall"], cwd=VERIF, env=env, capture_output=True, text=True)
        bad = [l for l in r.stdout.splitlines() if len(l.split()) >= 2 and l.split()[1] != "0"]
        return name, "; ".join(x[:150] for x in bad)
    finally:
        shutil.rmtree(root, ignore_errors=True)

dirs = sorted(glob.glob(os.path.join(VERIF, sys.argv[1] if len(sys.argv) > 1 else "benign", "*")))
dirs = [d for d in dirs if os.path.exists(os.path.join(d, "patch.diff"))]
n = 0
with ThreadPoolExecutor(16) as ex:
    for name, res in ex.map(one, dirs):
        if res:
            n += 1
            print(name, res)
            sys.stdout.flush()
print("benign changes:", len(dirs), "with an alarm:", n)
