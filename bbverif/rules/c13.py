"""C13 - read-only operations leave programs unchanged; instances are independent (EFF, DESIGN 5/C13)."""
import ast

from ..report import Inconclusive
from ..py.eff import FRESH, Eff, nonfresh, base_origin
from ..py.index import Index, u
from . import common

READONLY = {
    "program.BlackbirdProgram.serialize": [],
    "program.BlackbirdProgram.__len__": [],
    "program.BlackbirdProgram.is_template": [],
    "program.numpy_to_blackbird": [],
    "utils.to_DiGraph": [],
    "utils.match_template": [],
    "__init__.dumps": [],
    "__init__.dump": ["f"],          # the file-like object is written to, by contract
}
CONTROL = {"m": '''
import copy
def ro(p):
    for op in p.operations:
        op["args"] = []
def deep(p):
    q = copy.deepcopy(p)
    q.x.append(1)
    return q
def shallow(p):
    q = copy.copy(p)
    return q
'''}


def run(rep, tier):
    rep.trust(*common.PY_TRUST)
    E = common.eff(rep)
    ix = E.ix
    positive_control(rep)
    common.guarded(rep, "C13.1", c13_1, rep, E, ix)
    common.guarded(rep, "C13.2", c13_2, rep, E, ix)


def positive_control(rep):
    rep.rule("C13.0", "positive control: the effect analysis reports a parameter mutation and a shallow-copy return on an embedded example, and none on the deep-copy twin", floor=3)
    ix = Index(sources=CONTROL)
    E = Eff(ix)
    E.solve()
    rep.check("IN:PARAM:p" in E.summ["m.ro"].mutates, "C13.0", "embedded ro()", "store into an element of p.operations is reported as a mutation of parameter p")
    rep.check(not E.summ["m.deep"].mutates and not nonfresh(E.summ["m.deep"].ret.reach), "C13.0", "embedded deep()", "deepcopy result may be mutated and returned")
    rep.check("IN:PARAM:p" in E.summ["m.shallow"].ret.reach, "C13.0", "embedded shallow()", "copy.copy result is reported as sharing state with p")


def event_text(e):
    try:
        txt = u(e.node)
    except Exception:
        txt = e.what
    return " ".join(txt.split())[:140]


def c13_1(rep, E, ix):
    rep.rule("C13.1", "read-only API functions and property getters perform no mutation whose target may be (part of) a parameter or module-level state, including through callees",
             floor=40)
    targets = dict(READONLY)
    for name, f in ix.properties().items():
        if f.cls == "program.BlackbirdProgram":
            targets[f.qual] = []
    for q, exempt in sorted(targets.items()):
        f = ix.func(q)
        evs = E.events.get(q, [])
        n = 0
        for e in evs:
            bad = [o for o in nonfresh(e.target.self_o) if not (base_origin(o).startswith("PARAM:") and base_origin(o)[6:] in exempt)]
            txt = event_text(e)
            if bad:
                rep.bad("C13.1", ix.site(f, e.node), "mutation `%s` targets only freshly created objects" % txt,
                        "%s; the mutated object may be %s" % (e.what, ", ".join(bad)), key="%s|%s" % (q, txt))
            else:
                rep.ok("C13.1", ix.site(f, e.node), "mutation `%s` targets only freshly created objects" % txt)
            n += 1
        rep.ok("C13.1", ix.site(f), "%s: %d mutation sites analysed, none on a parameter" % (q, n)) if not any(
            o.status == "refuted" and o.site.endswith(q) for o in rep.obs) else None
        s = E.summ[q]
        live = sorted(g for g in s.reads_globals if g in E.written_globals)
        rep.check(not live, "C13.1", ix.site(f), "%s does not consult module-level state that is written anywhere in the package" % q, "reads %s" % live, key=q + "|globals")


def c13_2(rep, E, ix):
    rep.rule("C13.2", "__call__ mutates only fresh objects and returns an object that shares no mutable state with the template", floor=8)
    q = "program.BlackbirdProgram.__call__"
    f = ix.func(q)
    for e in E.events.get(q, []):
        bad = nonfresh(e.target.self_o)
        txt = event_text(e)
        rep.check(not bad, "C13.2", ix.site(f, e.node), "mutation `%s` in __call__ targets only the fresh copy" % txt,
                  "%s; the mutated object may be %s" % (e.what, ", ".join(bad)), key="%s|%s" % (q, txt))
    # ... and no container the caller passed in becomes part of the instance as it is (two instances made from one argument would share it)
    seen_ = set()
    from ..py.index import root_name, walk_shallow as _ws
    rets_ = [n for n in _ws(f.node) if isinstance(n, ast.Return) and isinstance(n.value, ast.Name)]
    prog_name = rets_[0].value.id if rets_ else None
    for e in E.events.get(q, []):
        txt = event_text(e)
        into_prog = isinstance(e.node, ast.Assign) and any(root_name(t_) == prog_name for t_ in e.node.targets)
        if e.stored is not None and txt not in seen_ and into_prog:
            seen_.add(txt)
            caller = sorted(o for o in e.stored.self_o if base_origin(o) == "PARAM:kwargs")
            rep.check(not caller, "C13.2", ix.site(f, e.node), "`%s` stores a value computed for this instance (the caller's own containers are only read)" % txt,
                      "the stored object may be an object the caller passed in, or a view of it (%s): instances created from the same argument share it" % ", ".join(caller),
                      key="%s|caller|%s" % (q, txt))
    s = E.summ[q]
    if s.ret is None:
        raise Inconclusive("__call__ has no return value")
    shared = [o for o in nonfresh(s.ret.reach) if base_origin(o) != "PARAM:kwargs"]
    rep.check(not shared, "C13.2", ix.site(f), "the program returned by __call__ is deep-fresh with respect to the template and module state",
              "the returned object may contain or be %s" % ", ".join(shared), key=q + "|return")
    live = sorted(g for g in s.reads_globals if g in E.written_globals)
    rep.check(not live, "C13.2", ix.site(f), "__call__ does not consult module-level state that is written anywhere in the package", "reads %s" % live, key=q + "|globals")
    # mutable default arguments anywhere in the read-only API
    for qq, fn in ix.funcs.items():
        if fn.mod in ("program", "utils", "__init__"):
            a = fn.node.args
            for d in list(a.defaults) + [x for x in a.kw_defaults if x is not None]:
                rep.check(not isinstance(d, (ast.List, ast.Dict, ast.Set, ast.Call)), "C13.2", ix.site(fn), "no mutable default argument in %s" % qq, u(d))
