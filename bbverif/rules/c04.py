"""C04 - instantiating a template equals substituting values into its text (EFF, GRD, SIB; DESIGN 5/C04)."""
import ast
from ..py import norm as nrm
import copy as _copy

from ..report import Inconclusive
from ..gram import model as gm
from ..py.eff import nonfresh, base_origin
from ..py.guards import always_raises, resolved_text, stmt_of, path_to
from ..py.index import u, walk_shallow, pos
from . import common
from .c19 import get_ord

CALL = "program.BlackbirdProgram.__call__"
EVAL = "auxiliary._expression"
EXITP = "listener.BlackbirdListener.exitProgram"
ARRAY = "listener.BlackbirdListener.exitArrayvar"


def run(rep, tier):
    rep.trust(*common.PY_TRUST)
    rep.trust("sympy.lambdify(symbols, expr)(**{name: value}) evaluates expr with each symbol bound to the value given under its name")
    ix = common.index(rep)
    M = gm.Model(rep)
    common.guarded(rep, "C04.1", c04_1, rep, ix)
    common.guarded(rep, "C04.2", c04_2, rep, ix)
    sites = common.guarded(rep, "C04.3", c04_3, rep, ix)
    common.guarded(rep, "C04.7", c04_7, rep, ix)
    common.guarded(rep, "C04.9", c04_9, rep, ix)
    if sites:
        common.guarded(rep, "C04.4", c04_4, rep, ix, sites)
        common.guarded(rep, "C04.8", c04_8, rep, ix, sites)
    common.guarded(rep, "C04.5", c04_5, rep, ix, M.G)
    from . import c05, c08
    common.guarded(rep, "C04.6", c05.c05_5, rep, ix, "C04.6")
    common.guarded(rep, "C08.5", c08.c08_5, rep, ix)
    from . import c15
    common.guarded(rep, "C15.2", c15.c15_2, rep, ix)       # a variable named like a parameter is still a variable
    common.guarded(rep, "C15.3", c15.c15_3, rep, ix)       # every writer of the parameter table is a known one (nothing drops or restores entries)
    common.guarded(rep, "C15.1", c15.c15_1, rep, ix, True)       # the p-type filter drops exactly p<digits> names from the reported parameters
    c05.aliasing_lint(rep, ix)
    # a parameter inside an expression goes through the same operators as a number: the operator table of the evaluator holds for symbolic
    # operands too (np.float_power, say, has no loop for SymPy objects)
    from . import c03
    from ..py.ctxtypes import ContextClasses
    br_ = common.guarded(rep, "C03.2", c03.c03_2, rep, ix, M)
    if br_:
        common.guarded(rep, "C03.3", c03.c03_3, rep, ix, M, ContextClasses(M.src["py_parser"]), br_)
    # the parameters a template reports are those of its own script: the module tables hold nothing of an earlier load (shared with C12)
    c05.shared_tables(rep, ix, M.G)
    # the instantiated program is a deep copy (shared with C13)
    from . import c13
    E = common.eff(rep)
    c13.c13_2(rep, E, ix)
    # ORD: no hash-order dependent binding in __call__
    O = get_ord(rep)
    rep.rule("C04.7", "parameter values are bound by name, never by the arbitrary position of a symbol in a set", floor=1)
    hits = [x for x in O.findings.get(CALL, []) if x.severity == "sink"]
    for x in hits:
        rep.bad("C04.7", ix.site(ix.func(CALL), x.node), "`%s` binds by name" % x.text, "%s; source %s" % (x.sink, x.taint.src), key=x.text)
    if not hits:
        rep.ok("C04.7", ix.site(ix.func(CALL)), "no positional use of a symbol order in __call__")


def c04_1(rep, ix):
    R = "C04.1"
    rep.rule(R, "is_template() is bool(self.parameters); parameters is derived from _parameters only (the set of their names)", floor=3)
    f = ix.func("program.BlackbirdProgram.is_template")
    body = [s for s in f.node.body if not (isinstance(s, ast.Expr) and isinstance(s.value, ast.Constant))]
    ok = len(body) == 1 and isinstance(body[0], ast.Return) and u(body[0].value) in ("bool(self.parameters)", "len(self.parameters) > 0", "bool(self._parameters)", "len(self._parameters) > 0")
    rep.check(ok, R, ix.site(f), "is_template() returns bool(self.parameters)", "returns `%s`" % (u(body[0].value) if body and isinstance(body[0], ast.Return) else None), key="is_template")
    p = ix.func("program.BlackbirdProgram.parameters")
    body = [s for s in p.node.body if not (isinstance(s, ast.Expr) and isinstance(s.value, ast.Constant))]
    ret = body[0].value if len(body) == 1 and isinstance(body[0], ast.Return) else None
    v = " ".join(u(ret).split()) if ret is not None else None

    def names_of(e):
        """e builds the set {str(x) for x in self._parameters} (any spelling, any variable name)"""
        if isinstance(e, ast.Call) and u(e.func) in ("set", "frozenset") and len(e.args) == 1 and not e.keywords:
            a = e.args[0]
            if isinstance(a, ast.Call) and u(a.func) == "map" and len(a.args) == 2:
                return u(a.args[0]) == "str" and u(a.args[1]) == "self._parameters"
            return isinstance(a, (ast.ListComp, ast.GeneratorExp, ast.SetComp)) and comp_ok(a)
        return isinstance(e, ast.SetComp) and comp_ok(e)

    def comp_ok(c):
        if len(c.generators) != 1:
            return False
        g = c.generators[0]
        return isinstance(g.target, ast.Name) and not g.ifs and u(g.iter) == "self._parameters" and u(c.elt) == "str(%s)" % g.target.id
    okp = ret is not None and names_of(ret)
    rep.check(okp, R, ix.site(p), "parameters is the set of str(p) for p in self._parameters", "returns `%s`" % v, key="parameters")
    c = ix.func(CALL)
    first = [s for s in c.node.body if not (isinstance(s, ast.Expr) and isinstance(s.value, ast.Constant))][0]
    okc = isinstance(first, ast.If) and u(first.test) in ("not self.parameters", "not self.is_template()") and always_raises(first.body) and "ValueError" in u(first.body[-1])
    rep.check(okc, R, ix.site(c, first), "calling a program without free parameters raises ValueError", key="not a template")


def c04_2(rep, ix):
    R = "C04.2"
    rep.rule(R, "the object returned by __call__ has its free-parameter list reset on every return path", floor=2)
    f = ix.func(CALL)
    fn = f.node
    rets = [n for n in walk_shallow(fn) if isinstance(n, ast.Return) and n.value is not None]
    if not rets or not all(isinstance(r.value, ast.Name) for r in rets) or len({r.value.id for r in rets}) != 1:
        raise Inconclusive("__call__: returned object is not a single local name")
    prog = rets[0].value.id
    resets = [s for s in fn.body if isinstance(s, ast.Assign) and u(s.targets[0]) == "%s._parameters" % prog and isinstance(s.value, ast.List) and not s.value.elts]
    defs = [s for s in fn.body if isinstance(s, ast.Assign) and u(s.targets[0]) == prog]
    ok = len(resets) == 1 and len(defs) == 1 and pos(defs[0]) < pos(resets[0]) and all(pos(r) > pos(resets[0]) for r in rets)
    rep.check(ok, R, ix.site(f, resets[0]) if resets else ix.site(f), "`%s._parameters = []` is executed unconditionally after the copy and before every return" % prog, key="reset")
    later = [n for n in walk_shallow(fn) if isinstance(n, (ast.Assign, ast.AugAssign)) and "%s._parameters" % prog in u(n) and n not in resets] + \
            [n for n in walk_shallow(fn) if isinstance(n, ast.Call) and isinstance(n.func, ast.Attribute) and u(n.func.value) == "%s._parameters" % prog]
    rep.check(not later, R, ix.site(f), "nothing re-populates the returned program's parameter list", key="no repopulate")


def value_mapping(fn):
    """name of the mapping the parameter values are looked up in: `kwargs`, or the local that holds the (expanded) copy of it"""
    names = {}
    for n in ast.walk(fn):
        if isinstance(n, ast.Subscript) and isinstance(n.ctx, ast.Load) and isinstance(n.value, ast.Name) and "str(" in u(n.slice):
            names[n.value.id] = names.get(n.value.id, 0) + 1
    if not names:
        # the look-ups that a KeyError -> ValueError translation encloses
        for t in ast.walk(fn):
            if isinstance(t, ast.Try) and any(h.type is not None and "KeyError" in u(h.type) for h in t.handlers):
                for b_ in t.body:
                    for n in ast.walk(b_):
                        if isinstance(n, ast.Subscript) and isinstance(n.ctx, ast.Load) and isinstance(n.value, ast.Name) and not isinstance(n.slice, ast.Constant):
                            names[n.value.id] = names.get(n.value.id, 0) + 1
    if "kwargs" in names or not names:
        return "kwargs"
    return max(names, key=names.get)


def lookup_sites(fn):
    """subscript loads kwargs[str(p)] (value lookups by parameter name)"""
    VM = value_mapping(fn)
    out = []
    for n in walk_shallow(fn):
        pass
    # keys that come from iterating the mapping itself cannot be missing
    own_keys = set()
    for n in ast.walk(fn):
        if isinstance(n, (ast.For, ast.comprehension)) and " ".join(u(n.iter).split()) in [x.replace("kwargs", VM) for x in ("kwargs", "kwargs.items()", "kwargs.keys()", "list(kwargs)", "list(kwargs.items())", "sorted(kwargs)")]:
            t = n.target.elts[0] if isinstance(n.target, ast.Tuple) and "items" in u(n.iter) else n.target
            if isinstance(t, ast.Name):
                own_keys.add(t.id)
    for n in ast.walk(fn):
        if isinstance(n, ast.Subscript) and isinstance(n.ctx, ast.Load) and u(n.value) == VM and not (isinstance(n.slice, ast.Name) and n.slice.id in own_keys):
            out.append(n)
    return out


def c04_3(rep, ix):
    R = "C04.3"
    rep.rule(R, "every lookup of a parameter value by name is inside a KeyError -> ValueError translation (a missing value is refused with ValueError)", floor=4)
    f = ix.func(CALL)
    fn = f.node
    sites = lookup_sites(fn)
    if not sites:
        raise Inconclusive("__call__: no kwargs[str(p)] lookups found")
    info = []
    for n in sites:
        tr = None
        for t in ast.walk(fn):
            if isinstance(t, ast.Try) and any(x is n for b in t.body for x in ast.walk(b)):
                if tr is None or pos(t) > pos(tr):
                    tr = t
        ok = False
        if tr is not None:
            for h in tr.handlers:
                if h.type is not None and "KeyError" in u(h.type) and always_raises(h.body) and any("ValueError" in u(x.exc) for x in ast.walk(h) if isinstance(x, ast.Raise) and x.exc is not None):
                    ok = True
        rep.check(ok, R, ix.site(f, n), "`%s` is guarded by `except KeyError: raise ValueError`" % " ".join(u(n).split()), key="lookup|%d" % len(info))
        info.append((n, tr))
    return info


def c04_7(rep, ix):
    R = "C04.7"
    rep.rule(R, "a two-dimensional value given for a whole-array parameter <p> is spread over the element parameters <p>_<i>_<j> with i the row and j the column of the element", floor=1)
    f = ix.func(CALL)
    fn = f.node
    from ..py.guards import resolved_text, stmt_of
    loops = [l for l in walk_shallow(fn) if isinstance(l, ast.For) and " ".join(u(l.iter).split()) == "kwargs.items()" and isinstance(l.target, ast.Tuple) and len(l.target.elts) == 2]
    if len(loops) != 1:
        raise Inconclusive("__call__: loop over the passed values not recognised")
    l = loops[0]
    k, v = u(l.target.elts[0]), u(l.target.elts[1])

    def name_template(e, at):
        parts = nrm.fmt_parts(ast.parse(resolved_text(fn, e, at), mode="eval").body) or []
        if len(parts) == 5 and [p_[0] for p_ in parts] == ["expr", "lit", "expr", "lit", "expr"] and parts[1][1] == "_" and parts[3][1] == "_" and u(parts[0][1]) == k \
                and isinstance(parts[2][1], ast.Name) and isinstance(parts[4][1], ast.Name):
            return parts[2][1].id, parts[4][1].id
        return None

    def source(e):
        """what an expression denoting the array value is: the loop's value or a local array form of it"""
        t = resolved_text(fn, e, l.body[0]) if not isinstance(e, str) else e
        return t in (v, "np.asarray(%s)" % v, "np.array(%s)" % v, "np.asanyarray(%s)" % v)

    verdict, where, why = None, l, ""
    for n in ast.walk(l):
        if isinstance(n, ast.DictComp):
            nt = name_template(n.key, stmt_of(fn, n) or l)
            if nt is None:
                continue
            where = n
            gens = n.generators
            if len(gens) == 2 and all(isinstance(g.iter, ast.Call) and u(g.iter.func) == "enumerate" and isinstance(g.target, ast.Tuple) and len(g.target.elts) == 2 for g in gens):
                i_, row = u(gens[0].target.elts[0]), u(gens[0].target.elts[1])
                j_, val = u(gens[1].target.elts[0]), u(gens[1].target.elts[1])
                ok = source(gens[0].iter.args[0]) and u(gens[1].iter.args[0]) == row and nt == (i_, j_) and u(n.value) == val
                verdict, why = ok, "key %s over rows `%s`, columns `%s`, value `%s`" % (nt, u(gens[0].iter), u(gens[1].iter), u(n.value))
            elif len(gens) == 1 and isinstance(gens[0].iter, ast.Call) and u(gens[0].iter.func) in ("np.ndindex", "numpy.ndindex") and isinstance(gens[0].target, ast.Tuple) and len(gens[0].target.elts) == 2:
                i_, j_ = u(gens[0].target.elts[0]), u(gens[0].target.elts[1])
                val = " ".join(u(n.value).split())
                base = val.split("[")[0]
                ok = nt == (i_, j_) and val in ("%s[%s][%s]" % (base, i_, j_), "%s[%s, %s]" % (base, i_, j_)) and source(base)
                verdict, why = ok, "key %s, value `%s`" % (nt, val)
            elif len(gens) == 1 and isinstance(gens[0].iter, ast.Call) and u(gens[0].iter.func) in ("np.ndenumerate", "numpy.ndenumerate") and isinstance(gens[0].target, ast.Tuple) \
                    and len(gens[0].target.elts) == 2 and isinstance(gens[0].target.elts[0], ast.Tuple) and len(gens[0].target.elts[0].elts) == 2:
                i_, j_ = [u(x) for x in gens[0].target.elts[0].elts]
                ok = nt == (i_, j_) and u(n.value) == u(gens[0].target.elts[1]) and source(gens[0].iter.args[0])
                verdict, why = ok, "key %s over ndenumerate" % (nt,)
    if verdict is None:
        # names and elements produced separately and paired by position
        for n in ast.walk(l):
            if isinstance(n, ast.Call) and u(n.func) == "zip" and len(n.args) == 2:
                from .c07 import resolve
                names, elems = resolve(fn, n.args[0]), resolve(fn, n.args[1])
                if isinstance(names, (ast.GeneratorExp, ast.ListComp)) and len(names.generators) == 1 and isinstance(names.generators[0].iter, ast.Call) \
                        and u(names.generators[0].iter.func) in ("np.ndindex", "numpy.ndindex") and isinstance(names.generators[0].target, ast.Tuple):
                    nt = name_template(names.elt, stmt_of(fn, n) or l)
                    tgt = tuple(u(x) for x in names.generators[0].target.elts)
                    et = " ".join(u(elems).split())
                    where = n
                    if "nditer" in et and "order='C'" not in et and 'order="C"' not in et:
                        verdict, why = False, "the elements come from `%s`, which walks the array in memory order: for a transposed / Fortran-ordered value they are paired with the wrong indices" % et[:70]
                    elif nt == tgt and any(x in et for x in (".flat", ".ravel()", ".flatten()", ".reshape(-1)")) and "order=" not in et:
                        verdict, why = True, "row-major indices paired with the row-major flattening"
    if verdict is None:
        # written as two nested loops: for i, row in enumerate(<value>): for j, val in enumerate(row): M[<name>_<i>_<j>] = val
        for n in ast.walk(l):
            if isinstance(n, ast.Assign) and len(n.targets) == 1 and isinstance(n.targets[0], ast.Subscript) and isinstance(n.targets[0].value, ast.Name):
                nt = name_template(n.targets[0].slice, n)
                if nt is None:
                    continue
                encl = [x for x in ast.walk(l) if isinstance(x, ast.For) and x is not l and any(y is n for y in ast.walk(x))]
                encl.sort(key=pos)
                if len(encl) == 2 and all(isinstance(x.iter, ast.Call) and u(x.iter.func) == "enumerate" and len(x.iter.args) == 1 and isinstance(x.target, ast.Tuple) and len(x.target.elts) == 2 for x in encl):
                    i_, row = u(encl[0].target.elts[0]), u(encl[0].target.elts[1])
                    j_, val = u(encl[1].target.elts[0]), u(encl[1].target.elts[1])
                    where = n
                    ok = source(encl[0].iter.args[0]) and u(encl[1].iter.args[0]) == row and nt == (i_, j_) and u(n.value) == val
                    verdict, why = ok, "key %s over rows `%s`, columns `%s`, value `%s`" % (nt, u(encl[0].iter), u(encl[1].iter), u(n.value))
                elif len(encl) == 1 and isinstance(encl[0].iter, ast.Call) and u(encl[0].iter.func) in ("np.ndindex", "numpy.ndindex") and isinstance(encl[0].target, ast.Tuple) and len(encl[0].target.elts) == 2:
                    i_, j_ = u(encl[0].target.elts[0]), u(encl[0].target.elts[1])
                    valt = " ".join(u(n.value).split())
                    base = valt.split("[")[0]
                    where = n
                    ok = nt == (i_, j_) and valt in ("%s[%s][%s]" % (base, i_, j_), "%s[%s, %s]" % (base, i_, j_)) and source(base)
                    verdict, why = ok, "key %s, value `%s`" % (nt, valt)
    if verdict is None:
        raise Inconclusive("__call__: expansion of an array value into element parameters not recognised")
    rep.check(verdict, R, ix.site(f, where), "element parameter <p>_<i>_<j> receives element (i, j) of the value passed for <p>", why, key="array value")


def c04_9(rep, ix):
    R = "C04.9"
    rep.rule(R, "the loop over the passed values refuses only a whole-array value that is not two-dimensional, and binds every other value exactly as it was passed: "
                "the guards of its raise statements mention the value alone and are false for a two-dimensional value; nothing is stored under the caller's own name but the caller's own value", floor=2)
    f = ix.func(CALL)
    fn = f.node
    from ..py.guards import Reach, AEval, Kind
    loops = [l for l in walk_shallow(fn) if isinstance(l, ast.For) and " ".join(u(l.iter).split()) == "kwargs.items()" and isinstance(l.target, ast.Tuple) and len(l.target.elts) == 2]
    if len(loops) != 1:
        raise Inconclusive("__call__: loop over the passed values not recognised")
    l = loops[0]
    k, v = u(l.target.elts[0]), u(l.target.elts[1])
    fake = ast.FunctionDef(name="_", args=ast.arguments(posonlyargs=[], args=[], kwonlyargs=[], kw_defaults=[], defaults=[]), body=l.body, decorator_list=[])
    arr = Kind("Array2", {"np.ndarray", "Iterable", "collections.abc.Iterable", "object"}, extra={"ndim": 2, "shape": (2, 2), "size": 4})

    def atom(node):
        t = " ".join(u(node).split())
        if t == v:
            return arr
        if t in ("np.ndim(%s)" % v, "numpy.ndim(%s)" % v, "np.asarray(%s).ndim" % v, "np.array(%s).ndim" % v, "len(np.shape(%s))" % v):
            return 2
        if t in ("np.shape(%s)" % v, "np.asarray(%s).shape" % v):
            return (2, 2)
        return AEval.NO
    n = 0
    for r in ast.walk(fake):
        if not isinstance(r, ast.Raise):
            continue
        n += 1
        why = ""
        try:
            reach = Reach(fake, r, aliases=True).may_reach(atom)
            if reach:
                why = "the refusal is reached for a two-dimensional value"
        except Inconclusive as ex:
            # which names does the guard depend on?
            tests = [x.test for x in ast.walk(fake) if isinstance(x, ast.If) and any(y is r for y in ast.walk(x))]
            others = sorted({y.id for t_ in tests for y in ast.walk(t_) if isinstance(y, ast.Name) and y.id not in (v, "np", "numpy", "Iterable", "isinstance", "len", "list", "tuple", "str", "bytes", "dict")} |
                            {u(y) for t_ in tests for y in ast.walk(t_) if isinstance(y, ast.Attribute) and u(y).startswith("self.")})
            if others:
                reach, why = True, "the refusal depends on %s, not on the value alone: a call that provides every value the template needs can be refused" % ", ".join("`%s`" % o for o in others[:4])
            else:
                raise
        rep.check(not reach, R, ix.site(f, r), "`%s` is not reached for a two-dimensional array value" % " ".join(u(r).split())[:60], why, key="refusal|" + " ".join(u(r).split())[:60])
    for a in ast.walk(fake):
        if isinstance(a, ast.Assign) and len(a.targets) == 1 and isinstance(a.targets[0], ast.Subscript) and u(a.targets[0].slice) == k:
            n += 1
            rep.check(u(a.value) == v, R, ix.site(f, a), "`%s`: what is bound under the caller's name is the caller's value" % " ".join(u(a).split())[:60],
                      "the value is converted before it is bound (a NumPy complex scalar loses its imaginary part through float(), an unsigned / extended one changes type)", key="rebind|" + " ".join(u(a).split())[:60])
        if isinstance(a, ast.Assign) and len(a.targets) == 1 and isinstance(a.targets[0], ast.Name) and a.targets[0].id == v and a in l.body:
            n += 1
            rep.bad(R, ix.site(f, a), "the passed value is not replaced", "`%s`" % " ".join(u(a).split())[:60], key="revalue|" + " ".join(u(a).split())[:60])
    rep.ok(R, ix.site(f, l), "values loop of __call__ inspected: %d refusals / stores under the caller's name" % n)


def c04_4(rep, ix, sites):
    R = "C04.4"
    rep.rule(R, "all substitution sites (positional, keyword, scalar variable, array element) use the same bind-by-name idiom: par = list(X.free_symbols); func = lambdify(par, X); "
                "vals = {str(p): kwargs[str(p)] for p in par}; result = func(**vals)", floor=4)
    f = ix.func(CALL)
    fn = f.node
    shapes = []
    for n, tr in sites:
        if tr is None:
            continue
        # the block containing the try
        blk = None
        for b in all_blocks(fn):
            if tr in b:
                blk = b
        if blk is None:
            continue
        i = blk.index(tr)
        ctx = blk[max(0, i - 2): i + 2]
        # subject X: the argument of .free_symbols in the `par` definition
        par = [s for s in ctx if isinstance(s, ast.Assign) and "free_symbols" in u(s.value)]
        if len(par) != 1:
            rep.bad(R, ix.site(f, tr), "substitution site defines its symbol list from X.free_symbols next to the lookup", key="par|%d" % len(shapes))
            continue
        subj = None
        for x in ast.walk(par[0].value):
            if isinstance(x, ast.Attribute) and x.attr == "free_symbols":
                subj = u(x.value)
        pv = u(par[0].targets[0])
        prep = []
        for s in ctx:
            s2 = _copy.deepcopy(s)
            if isinstance(s2, ast.Assign) and isinstance(s2.value, ast.Call) and any(k.arg is None for k in s2.value.keywords) and not isinstance(s2.targets[0], ast.Name):
                s2.targets = [ast.Name(id="TARGET", ctx=ast.Store())]
            # the substituted value collected into a list that is stored afterwards: `acc.append(func(**vals))`
            if isinstance(s2, ast.Expr) and isinstance(s2.value, ast.Call) and isinstance(s2.value.func, ast.Attribute) and s2.value.func.attr == "append" and len(s2.value.args) == 1 \
                    and isinstance(s2.value.args[0], ast.Call) and any(k.arg is None for k in s2.value.args[0].keywords):
                s2 = ast.copy_location(ast.Assign(targets=[ast.Name(id="TARGET", ctx=ast.Store())], value=s2.value.args[0]), s2)
            prep.append(Subst(subj).visit(s2))
        # the names bound inside the idiom are compared up to renaming
        bound = set()
        for s2 in prep:
            bound |= {x.id for x in ast.walk(s2) if isinstance(x, ast.Name) and isinstance(x.ctx, ast.Store)} - {"TARGET"}
        shapes.append((tuple(nrm.alpha(prep, bound)), subj, tr))
    want = tuple(nrm.alpha_of_source("par = list(X.free_symbols)\nfunc = sym.lambdify(par, X)\n"
                                     "try:\n    vals = {str(p): %s[str(p)] for p in par}\nexcept KeyError:\n    raise ValueError('Invalid value for free parameter provided')\n" % value_mapping(fn) +
                                     "TARGET = func(**vals)", {"par", "func", "vals", "p"}))
    try_head = want[2][:want[2].index(" except")]
    canon = None
    for norm, subj, tr in shapes:
        core = tuple(x for x in norm)
        ok = len(core) == 4 and core[0] == want[0] and core[1] == want[1] and core[2].startswith(try_head) and core[3] == want[3]
        rep.check(ok, R, ix.site(f, tr), "substitution of `%s` follows the bind-by-name idiom" % subj, "got %s" % (core,), key="idiom|" + subj)
        canon = canon or core
        rep.check(core == canon, R, ix.site(f, tr), "substitution of `%s` agrees with the other sites" % subj, key="agree|" + subj)
    # every substituted value is written into the program that is returned (not into a detached copy)
    rets = [n for n in walk_shallow(fn) if isinstance(n, ast.Return) and isinstance(n.value, ast.Name)]
    prog = rets[0].value.id if rets else None
    E = common.eff(rep)
    from ..py.index import root_name
    from ..py.eff import FRESH
    for norm_, subj, tr in shapes:
        blk = None
        for b in all_blocks(fn):
            if tr in b:
                blk = b
        st = blk[blk.index(tr) + 1] if blk and blk.index(tr) + 1 < len(blk) else None
        if isinstance(st, ast.Expr) and isinstance(st.value, ast.Call) and isinstance(st.value.func, ast.Attribute) and st.value.func.attr == "append" and isinstance(st.value.func.value, ast.Name):
            st = ast.copy_location(ast.Assign(targets=[ast.Subscript(value=st.value.func.value, slice=ast.Constant(value=-1), ctx=ast.Store())], value=st.value.args[0]), st)
        if not isinstance(st, ast.Assign):
            continue
        r = root_name(st.targets[0])
        ok = r == prog
        why = ""
        # ... but not through a property that hands out a fresh copy (`prog.variables[k] = ...` writes into a throw-away dict)
        x_ = st.targets[0]
        while isinstance(x_, (ast.Attribute, ast.Subscript)):
            if isinstance(x_, ast.Attribute) and x_.attr in E.props:
                ret = E.summ[E.props[x_.attr].qual].ret
                if ret is not None and ret.self_o == frozenset([FRESH]):
                    ok = False
                    why = "`%s` goes through the property `%s`, which returns a fresh copy: the substituted value is written into a throw-away object" % (" ".join(u(st.targets[0]).split())[:50], x_.attr)
            x_ = x_.value
        if not ok and r is not None:
            # an alias: a loop variable over, or an attribute chain of, the returned program - but not the result of a getter that returns a copy
            # (aliases of aliases included: `for op in prog._operations: op_args = op['args']`)
            roots = {prog}
            for _ in range(4):
                for n in ast.walk(fn):
                    if isinstance(n, ast.For) and root_name(n.iter if not isinstance(n.iter, ast.Call) else n.iter.func) in roots:
                        roots |= {x.id for x in ast.walk(n.target) if isinstance(x, ast.Name)}
                    elif isinstance(n, ast.Assign) and len(n.targets) == 1 and isinstance(n.targets[0], ast.Name) and isinstance(n.value, (ast.Attribute, ast.Subscript, ast.Name)) \
                            and root_name(n.value) in roots:
                        roots.add(n.targets[0].id)
            binders = [n for n in ast.walk(fn) if (isinstance(n, ast.For) and any(isinstance(x, ast.Name) and x.id == r for x in ast.walk(n.target)) and root_name(n.iter if not isinstance(n.iter, ast.Call) else n.iter.func) in roots)
                       or (isinstance(n, ast.Assign) and any(isinstance(t, ast.Name) and t.id == r for t in n.targets) and root_name(n.value) in roots)]
            ok = bool(binders)
            # ... or a local object that is itself stored into the returned program afterwards
            stored = [n for n in ast.walk(fn) if isinstance(n, ast.Assign) and isinstance(n.value, ast.Name) and n.value.id == r and root_name(n.targets[0]) in roots and not isinstance(n.targets[0], ast.Name)]
            if stored:
                ok = True
            for n in binders:
                v = n.value if isinstance(n, ast.Assign) else None
                if isinstance(v, ast.Attribute) and v.attr in E.props:
                    ret = E.summ[E.props[v.attr].qual].ret
                    if ret is not None and ret.self_o == frozenset([FRESH]):
                        ok = False
                        why = "`%s` is bound to %s.%s, a property that returns a fresh copy: the substituted value is written into a throw-away object" % (r, prog, v.attr)
        rep.check(ok, R, ix.site(f, st), "`%s` writes the substituted value into the returned program" % " ".join(u(st).split())[:60], why or "target `%s` is not (part of) the returned program" % u(st.targets[0]),
                  key="target|" + subj)
    subjects = sorted(s for _, s, _ in shapes)
    rep.check(len(shapes) >= 4, R, ix.site(f), "four kinds of site are substituted: positional argument, keyword argument, scalar variable, array element", "found %s" % subjects, key="four sites")
    # each site is reached for SymPy values only and writes back into the copy at the place it read from
    return shapes


def c04_8(rep, ix, sites):
    """which operations get their arguments substituted is decided by finite models of an operation, not by the spelling of the loops"""
    R = "C04.8"
    rep.rule(R, "the substitution of a positional (keyword) argument is reached for every operation that holds a symbolic value in that position, whatever its other "
                "arguments are: decided on finite models of an operation (no / numeric / symbolic positional arguments x no / numeric / symbolic keyword arguments)", floor=2)
    from ..py.guards import Reach, KINDS, SYM_KINDS, AEval, stmt_of
    f = ix.func(CALL)
    fn = f.node
    num, symv = KINDS["PyFloat"], SYM_KINDS["Symbol"].with_attrs(symbol="a", name="a")
    arg_models = {"none": (), "numeric": (num,), "symbolic": (symv,), "numeric+symbolic": (num, symv)}
    kw_models = {"none": {}, "numeric": {"k": num}, "symbolic": {"k": symv}}
    found = set()
    for n, tr in sites:
        if tr is None:
            continue
        # the loops around the site: over the operation's positional or keyword arguments?
        path = []
        for l in ast.walk(fn):
            if isinstance(l, ast.For) and any(x is tr for x in ast.walk(l)):
                path.append(l)
        oploop = [l for l in path if isinstance(l.target, ast.Name) and ("_operations" in u(l.iter) or "operations" in u(l.iter))]
        if not oploop:
            continue
        opname = oploop[0].target.id
        inner = [l for l in path if l is not oploop[0]]
        if len(inner) != 1:
            continue
        from ..py.guards import resolved_text
        it = resolved_text(fn, inner[0].iter, inner[0])
        slot = "positional" if "['args']" in it or '["args"]' in it else ("keyword" if "['kwargs']" in it or '["kwargs"]' in it else None)
        if slot is None:
            continue
        found.add(slot)
        names = [x.id for x in ast.walk(inner[0].target) if isinstance(x, ast.Name)]
        bad = []
        for an, am in arg_models.items():
            for kn, km in kw_models.items():
                holds = ("symbolic" in an) if slot == "positional" else ("symbolic" in kn)
                if not holds:
                    continue
                op = {"op": "G", "modes": (0,), "args": am, "kwargs": km}

                def atom(node, op=op, names=names, slot=slot):
                    if isinstance(node, ast.Name) and node.id == opname:
                        return op
                    if isinstance(node, ast.Name) and node.id in names:
                        # the loop is at the symbolic element: value variable -> the symbol, index / key variable -> its position / key
                        if slot == "positional":
                            return symv if node.id == names[-1] else len(op["args"]) - 1
                        return symv if node.id == names[-1] else "k"
                    return AEval.NO
                r_ = Reach(fn, tr)
                try:
                    ok = r_.may_reach(atom)
                except Inconclusive:
                    ok = True
                if not ok:
                    bad.append("%s positional / %s keyword arguments" % (an, kn))
        rep.check(not bad, R, ix.site(f, tr), "the %s-argument substitution is reached whenever the operation holds a symbolic %s argument" % (slot, slot),
                  "not reached for an operation with %s" % "; ".join(bad), key="reach|" + slot)
    if found != {"positional", "keyword"}:
        raise Inconclusive("__call__: positional / keyword substitution loops not recognised (%s)" % sorted(found))


class Subst(ast.NodeTransformer):
    """replace every sub-expression whose source equals `subj` by the name X"""

    def __init__(self, subj):
        self.subj = subj

    def generic_visit(self, node):
        if isinstance(node, ast.expr) and not isinstance(node, ast.Constant):
            try:
                if u(node) == self.subj:
                    return ast.Name(id="X", ctx=ast.Load())
            except Exception:
                pass
        return super().generic_visit(node)


def all_blocks(fn):
    from ..py.exh import all_blocks as ab
    out = ab(fn)
    # include elif continuations too
    for n in ast.walk(fn):
        if isinstance(n, ast.If) and n.orelse:
            out.append(n.orelse)
    return out


def c04_5(rep, ix, G):
    R = "C04.5"
    rep.rule(R, "free-parameter collection: every {name} evaluation appends Symbol(name); exitProgram publishes all entries that are not p-type; a whole-array parameter is replaced by its per-element symbols name_i_j", floor=5)
    f = ix.func(EVAL)
    fn = f.node
    br = [s for s in fn.body if isinstance(s, ast.If) and "ParameterLabelContext" in u(s.test)]
    if len(br) != 1:
        raise Inconclusive("_expression: ParameterLabel branch not recognised")
    b = [x for x in br[0].body if not (isinstance(x, ast.Expr) and isinstance(x.value, ast.Constant))]
    txt = [" ".join(u(s).split()) for s in b]
    ok = False
    if len(b) == 3 and isinstance(b[0], ast.Assign) and isinstance(b[0].targets[0], ast.Name):
        v = b[0].targets[0].id
        arg = f.params[0]
        ok = " ".join(u(b[0].value).split()) in ("Symbol(%s.parameter().NAME().getText())" % arg, "sym.Symbol(%s.parameter().NAME().getText())" % arg) \
            and txt[1] == "_PARAMS.append(%s)" % v and txt[2] == "return %s" % v
    rep.check(ok, R, ix.site(f, br[0]), "{name} evaluates to Symbol(name), records it in the parameter table and returns that symbol", "got %s" % txt, key="parameter branch")
    e = ix.func(EXITP)
    pub = [n for n in walk_shallow(e.node) if isinstance(n, ast.Call) and isinstance(n.func, ast.Attribute) and n.func.attr == "extend" and u(n.func.value) == "self._program._parameters"]
    v = " ".join(u(pub[0].args[0]).split()) if len(pub) == 1 and pub[0].args else None
    rep.check(v in ("[p for p in _PARAMS if not is_ptype(p)]", "(p for p in _PARAMS if not is_ptype(p))"), R, ix.site(e), "exitProgram publishes exactly the non-p-type entries of the table", "publishes `%s`" % v, key="publish")
    clr = [n for n in walk_shallow(e.node) if isinstance(n, ast.Call) and u(n.func) == "_PARAMS.clear"]
    rep.check(len(clr) == 1 and pub and pos(clr[0]) > pos(pub[0]), R, ix.site(e), "the table is cleared after publishing", key="clear after")
    a = ix.func(ARRAY)
    an = a.node
    from ..py.guards import resolved_text, stmt_of
    sym = [n for n in ast.walk(an) if isinstance(n, ast.Call) and u(n.func) in ("sym.Symbol", "Symbol") and len(n.args) == 1]
    okn, row, col, got = False, None, None, None
    if len(sym) == 1:
        # the name expression, with local aliases / templates looked through and every string-building spelling canonicalised
        rt = resolved_text(an, sym[0].args[0], stmt_of(an, sym[0]))
        parts = nrm.fmt_parts(ast.parse(rt, mode="eval").body) or []
        got = nrm.canon(parts)
        if len(parts) == 5 and [p_[0] for p_ in parts] == ["expr", "lit", "expr", "lit", "expr"] and parts[1][1] == "_" and parts[3][1] == "_" \
                and " ".join(u(parts[0][1]).split()) == "parameters[0][1].name" and isinstance(parts[2][1], ast.Name) and isinstance(parts[4][1], ast.Name) and len(parts[2]) == 2 and len(parts[4]) == 2:
            okn, row, col = True, parts[2][1].id, parts[4][1].id
    rep.check(okn, R, ix.site(a, sym[0]) if sym else ix.site(a), "the element symbols of a whole-array parameter are named <name>_<i>_<j> with i the row and j the column index",
              "name expression %s" % (got,), key="element names")
    if okn:
        loops = [l for l in walk_shallow(an) if isinstance(l, ast.For) and any(x is sym[0] for x in ast.walk(l))]
        its = [(u(l.target), " ".join(u(l.iter).split())) for l in loops]
        # comprehensions around the call: outermost first
        comps = [c for c in ast.walk(an) if isinstance(c, (ast.ListComp, ast.GeneratorExp)) and any(x is sym[0] for x in ast.walk(c))]
        comps.sort(key=lambda c: -len(list(ast.walk(c))))
        its += [(u(g.target), " ".join(u(g.iter).split())) for c in comps for g in c.generators]
        rep.check((row, "range(shape[0])") in its and (col, "range(shape[1])") in its and its.index((row, "range(shape[0])")) < its.index((col, "range(shape[1])")), R, ix.site(a, sym[0]),
                  "rows are the outer loop over shape[0], columns the inner loop over shape[1]", "loops %s" % its, key="element loops")
    ext = [n for n in walk_shallow(an) if isinstance(n, ast.Call) and u(n.func) == "_PARAMS.extend"]
    rem = [n for n in walk_shallow(an) if isinstance(n, ast.Call) and u(n.func) == "_PARAMS.remove"]
    remarg = resolved_text(an, rem[0].args[0], stmt_of(an, rem[0])) if len(rem) == 1 and rem[0].args else None
    rep.check(len(ext) == 1 and len(rem) == 1 and remarg == "parameters[0][1]", R, ix.site(a), "the per-element symbols are added and the array-level symbol removed from the table",
              "removes `%s`" % remarg, key="replace")
