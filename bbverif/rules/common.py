"""shared, cached engines for the rule modules"""
from ..py.index import Index
from ..py.eff import Eff

_cache = {}


def make_inliner(ix):
    from ..py import norm

    def inliner(call):
        import ast
        if isinstance(call.func, ast.Name):
            mods = [m for m in ix.mods if ix.resolve_name(m, call.func.id) in ix.funcs]
            quals = {ix.resolve_name(m, call.func.id) for m in mods}
            if len(quals) == 1:
                return norm.inline_call(ix, mods[0], call)
        return None
    return inliner


def index(rep):
    if "ix" not in _cache:
        _cache["ix"] = Index(rep)
        from ..py import guards
        guards.set_inliner(make_inliner(_cache["ix"]))
    else:
        for rel, src in [("blackbird_python/blackbird/%s.py" % m, s) for m, s in _cache["ix"].src.items()]:
            rep.file(rel, src)
    return _cache["ix"]


def eff(rep):
    ix = index(rep)
    if "eff" not in _cache:
        e = Eff(ix)
        e.solve()
        _cache["eff"] = e
    return _cache["eff"]


PY_TRUST = [
    "CPython ast parser; Python semantics of the structured statement/expression subset used by the handwritten modules",
    "library model: NumPy/SymPy/networkx/antlr4 calls do not mutate their arguments except the listed in-place functions; copy.deepcopy returns an object sharing nothing mutable with its argument",
]


def guarded(rep, rid, fn, *args, **kw):
    """run one sub-rule; an idiom outside its set makes that rule inconclusive without hiding the verdicts of the others"""
    from ..report import Inconclusive
    try:
        return fn(*args, **kw)
    except Inconclusive as e:
        rep.unknown(rid, "-", str(e))
        return None
