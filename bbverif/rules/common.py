"""shared, cached engines for the rule modules"""
from ..py.index import Index
from ..py.eff import Eff

_cache = {}


def index(rep):
    if "ix" not in _cache:
        _cache["ix"] = Index(rep)
    else:
        for rel, src in [("blackbird_python/blackbird/%s.py" % m, s) for m, s in _cache["ix"].src.items()]:
            rep.file(rel, src)
    return _cache["ix"]


def eff(rep):
    ix = index(rep)
    if "eff" not in _cache:
        e = Eff(ix)
        e.solve()
        _cache["eff"] = e
    return _cache["eff"]


PY_TRUST = [
    "CPython ast parser; Python semantics of the structured statement/expression subset used by the handwritten modules",
    "library model: NumPy/SymPy/networkx/antlr4 calls do not mutate their arguments except the listed in-place functions; copy.deepcopy returns an object sharing nothing mutable with its argument",
]


def guarded(rep, rid, fn, *args, **kw):
    """run one sub-rule; an idiom outside its set makes that rule inconclusive without hiding the verdicts of the others"""
    from ..report import Inconclusive
    try:
        return fn(*args, **kw)
    except Inconclusive as e:
        rep.unknown(rid, "-", str(e))
        return None
