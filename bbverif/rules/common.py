"""shared, cached engines for the rule modules"""
from ..py.index import Index
from ..py.eff import Eff

_cache = {}


def make_inliner(ix):
    from ..py import norm

    def inliner(call):
        import ast
        if isinstance(call.func, ast.Name):
            mods = [m for m in ix.mods if ix.resolve_name(m, call.func.id) in ix.funcs]
            quals = {ix.resolve_name(m, call.func.id) for m in mods}
            if len(quals) == 1:
                return norm.inline_call(ix, mods[0], call)
        return None
    return inliner


def make_funceval(ix):
    """finite-model interpretation of small package helpers: the helper's (original) body is run by guards.run_block with its parameters
    bound to the model values of the arguments; `return x` of a parameter gives back the very model element (identity is observable)"""
    import ast
    from ..py import guards, norm

    class Raised(Exception):
        pass

    def funceval(ev, call):
        g = None
        if isinstance(call.func, ast.Name):
            quals = {ix.resolve_name(m, call.func.id) for m in ix.mods} - {None}
            quals = {q for q in quals if q in ix.funcs}
            g = ix.funcs[quals.pop()] if len(quals) == 1 else None
        elif isinstance(call.func, ast.Attribute) and isinstance(call.func.value, ast.Name) and call.func.value.id in ("self", "cls"):
            cands = [f for q, f in ix.funcs.items() if f.cls and f.name == call.func.attr and q == f.qual]
            g = cands[0] if len(cands) == 1 else None
        if g is None:
            return guards.AEval.NO
        gnode = getattr(g, "orig", None) or g.node
        b = norm._bind_args(g, gnode, call)
        if b is None:
            return guards.AEval.NO
        params, mapping = b
        env = {}
        for p_ in params:
            env[p_] = ev.ev(mapping[p_])
        body = [s for s in norm.desugar_match(__import__("copy").deepcopy(gnode)).body]
        kind, val = guards.run_block(body, ev.atom, env)
        if kind == "return":
            return val
        if kind == "raise":
            raise guards.ModelError("helper %s raises %s" % (g.qual, val))
        return None
    return funceval


def index(rep):
    if "ix" not in _cache:
        _cache["ix"] = Index(rep)
        from ..py import guards
        guards.set_inliner(make_inliner(_cache["ix"]))
        guards.set_funceval(make_funceval(_cache["ix"]))
    else:
        for rel, src in [("blackbird_python/blackbird/%s.py" % m, s) for m, s in _cache["ix"].src.items()]:
            rep.file(rel, src)
    return _cache["ix"]


def eff(rep):
    ix = index(rep)
    if "eff" not in _cache:
        e = Eff(ix)
        e.solve()
        _cache["eff"] = e
    return _cache["eff"]


PY_TRUST = [
    "CPython ast parser; Python semantics of the structured statement/expression subset used by the handwritten modules",
    "library model: NumPy/SymPy/networkx/antlr4 calls do not mutate their arguments except the listed in-place functions; copy.deepcopy returns an object sharing nothing mutable with its argument",
]


def guarded(rep, rid, fn, *args, **kw):
    """run one sub-rule; an idiom outside its set makes that rule inconclusive without hiding the verdicts of the others"""
    from ..report import Inconclusive
    try:
        return fn(*args, **kw)
    except Inconclusive as e:
        rep.unknown(rid, "-", str(e))
        return None
