"""T rules - serializer template analysis shared by C01, C09 and C15 (DESIGN 4.7, 5/C01, 5/C09, 5/C15.4).

For every value slot of `serialize` (positional, keyword, option, list element, array element, tdm variable) the isinstance dispatch is
read from the source as a table  guard -> template;  for every value kind that can occupy the slot the arm that catches it is selected
with the library's real class relations, its template is rendered with the kind's shape class, and the rendering language must be
included in the grammar form that reads back as the same kind (decided on character automata built from blackbird.g4)."""
import ast
import copy
import re

from ..report import Inconclusive
from ..py.guards import AEval, Kind, KINDS, Reach, always_raises
from ..py.index import u, walk_shallow, pos
from ..py.templates import Lang, FORMAT_SHAPE, READ_FORM, included, intersect_witness
from ..py import norm
from . import common

SER = "program.BlackbirdProgram.serialize"
N2B = "program.numpy_to_blackbird"
OBJ = {"object"}
XK = dict(KINDS)
XK["NdArray"] = Kind("NdArray", {"np.ndarray", "Iterable", "object"})
XK["RegRef"] = Kind("RegRef", {"RegRefTransform", "object"})
XK["List"] = Kind("List", {"list", "Iterable", "object"})
XK["PyStr"] = Kind("PyStr", {"str", "Iterable", "object"})
XK["PName"] = Kind("PName", {"str", "Iterable", "object"})
XK["NpBool"] = Kind("NpBool", {"np.bool_", "np.generic", "object"})
XK["Sym"] = Kind("Sym", {"sym.Expr", "sym.Basic", "object"})
LOADER_SCALARS = ["PyInt", "PyFloat", "PyComplex", "PyBool", "PyStr", "NpInt", "NpFloat", "NpComplex", "Sym"]
API_EXTRA = ["NpBool"]


LIST_REBOUND = None
CONVERTED = []


class TemplateEval:
    """expression -> list of ('lit', text) | ('hole', shape) | ('trusted', what)"""

    def __init__(self, ix, mod, fn, roles, lenient=False, scope=None):
        self.ix, self.mod, self.fn, self.roles = ix, mod, fn, roles      # roles: name -> ('value', kind) | ('key',) | ('array', kind) | ('row', kind) | pieces
        self.lenient = lenient        # an expression the evaluator does not understand becomes a hole of arbitrary text (over-approximation)
        self.approx = []
        self.scope = scope            # statements in which locals of the expression are bound (text built up before it is written)

    def sub(self, extra):
        t = TemplateEval(self.ix, self.mod, self.fn, dict(self.roles, **extra), self.lenient, self.scope)
        t.approx = self.approx
        return t

    def text_lists(self, e):
        """the non-empty lists of formatted texts an expression concatenates, in order (roles ('texts', hole, nonempty)); None if it is not one"""
        if isinstance(e, ast.Name) and isinstance(self.roles.get(e.id), tuple) and self.roles[e.id][0] == "texts":
            return [self.roles[e.id][1]] if self.roles[e.id][2] else []
        if isinstance(e, ast.BinOp) and isinstance(e.op, ast.Add):
            a, b = self.text_lists(e.left), self.text_lists(e.right)
            return None if a is None or b is None else a + b
        if isinstance(e, (ast.List, ast.Tuple)) and e.elts and all(isinstance(x, ast.Starred) for x in e.elts):
            parts = [self.text_lists(x.value) for x in e.elts]
            return None if any(p_ is None for p_ in parts) else [h for p_ in parts for h in p_]
        if isinstance(e, ast.Call) and u(e.func) in ("itertools.chain", "chain") and e.args:
            parts = [self.text_lists(x) for x in e.args]
            return None if any(p_ is None for p_ in parts) else [h for p_ in parts for h in p_]
        return None

    def element_role(self, it):
        """role of the loop variable of `for x in <it>`: a row of an array, an element of a row"""
        rk = self.roles.get(" ".join(u(it).split()))
        if isinstance(rk, tuple) and rk[0] in ("array", "row"):
            return ("row", rk[1]) if rk[0] == "array" else ("value", rk[1])
        if isinstance(it, ast.Name) and isinstance(self.roles.get(it.id), tuple):
            r = self.roles[it.id]
            if r[0] == "array":
                return ("row", r[1])
            if r[0] == "row":
                return ("value", r[1])
        return None

    def repeated(self, comp, sep):
        """pieces of sep.join(<elt> for x in <rows / elements>): the element text, repeated with the separator in between (one or more times)"""
        if not isinstance(comp, (ast.GeneratorExp, ast.ListComp)) or len(comp.generators) != 1 or comp.generators[0].ifs or not isinstance(comp.generators[0].target, ast.Name):
            return None
        role = self.element_role(comp.generators[0].iter)
        if role is None:
            return None
        elt = self.sub({comp.generators[0].target.id: role}).ev(comp.elt)
        return [("rep", elt, [("lit", sep)] if sep else [])]

    def local_text(self, name):
        """text a local holds when the expression is evaluated: bound once to an expression / a comprehension in scope, or accumulated
        (`s = ''` ... `for x in rows: s += <piece>`)"""
        if self.scope is None:
            return None
        binds = [n for st in self.scope for n in ast.walk(st) if isinstance(n, (ast.Assign, ast.AugAssign)) and any(
            isinstance(t_, ast.Name) and t_.id == name for t_ in (n.targets if isinstance(n, ast.Assign) else [n.target]))]
        if len(binds) == 1 and isinstance(binds[0], ast.Assign):
            return ("expr", binds[0].value)
        # bound in several branches of one conditional: any of the texts
        if len(binds) >= 2 and all(isinstance(b_, ast.Assign) for b_ in binds):
            return ("pieces", [("alt", [self.ev(b_.value) for b_ in binds])])
        if len(binds) == 2 and isinstance(binds[0], ast.Assign) and isinstance(binds[0].value, ast.Constant) and binds[0].value.value == "" and isinstance(binds[1], ast.AugAssign) \
                and isinstance(binds[1].op, ast.Add):
            loops = [l for st in self.scope for l in ast.walk(st) if isinstance(l, ast.For) and binds[1] in l.body and isinstance(l.target, ast.Name)]
            if len(loops) == 1:
                role = self.element_role(loops[0].iter)
                if role is not None:
                    return ("pieces", [("rep", self.sub({loops[0].target.id: role}).ev(binds[1].value), [])])
        return None

    def ev(self, e):
        from ..py import norm
        if isinstance(e, ast.Constant) and isinstance(e.value, str):
            return [("lit", e.value)]
        if isinstance(e, (ast.JoinedStr, ast.BinOp)) or (isinstance(e, ast.Call) and isinstance(e.func, ast.Attribute) and e.func.attr == "format"
                                                          and not isinstance(e.func.value, ast.Name)):
            parts = norm.fmt_parts(e)
            if parts is not None and not any(len(p) > 2 for p in parts):
                out = []
                for p in parts:
                    out += [("lit", p[1])] if p[0] == "lit" else self.ev(p[1])
                return [x for x in out if x != ("lit", "")]
        if isinstance(e, ast.Name) and e.id in self.roles and isinstance(self.roles[e.id], tuple) and self.roles[e.id][0] == "alias":
            return self.ev(self.roles[e.id][1])
        # roles given for an expression text (op['op'], op['modes'])
        tkey = " ".join(u(e).split())
        if tkey in self.roles and not isinstance(e, ast.Name):
            r = self.roles[tkey]
            if isinstance(r, list):
                return list(r)
            if isinstance(r, tuple) and r[0] == "value":
                return self.value_hole(r[1])
        if isinstance(e, ast.Subscript) and isinstance(e.slice, ast.Constant) and isinstance(e.slice.value, int):
            rb = self.roles.get(" ".join(u(e.value).split()))
            if isinstance(rb, tuple) and rb[0] == "row":
                return self.value_hole(rb[1])
        # sep.join(<list of texts>): a collection of already formatted argument texts, possibly the concatenation of two of them
        if isinstance(e, ast.Call) and isinstance(e.func, ast.Attribute) and e.func.attr == "join" and isinstance(e.func.value, ast.Constant) and isinstance(e.func.value.value, str) and len(e.args) == 1:
            parts = self.text_lists(e.args[0])
            if parts is not None:
                sep = [("lit", e.func.value.value)] if e.func.value.value else []
                out = []
                for hole in parts:
                    if out:
                        out += sep
                    out.append(("rep", [("hole", hole)], sep))
                return out
        # sep.join(<comprehension over the rows / the elements of a row>)  and  ''.join(e + sep ...)[:-len(sep)]
        if isinstance(e, ast.Call) and isinstance(e.func, ast.Attribute) and e.func.attr == "join" and isinstance(e.func.value, ast.Constant) and isinstance(e.func.value.value, str) and len(e.args) == 1:
            arg = e.args[0]
            if isinstance(arg, ast.Name) and arg.id not in self.roles:
                lt = self.local_text(arg.id)
                arg = lt[1] if lt is not None and lt[0] == "expr" else arg
            r = self.repeated(arg, e.func.value.value)
            if r is not None:
                return r
        if isinstance(e, ast.Subscript) and isinstance(e.slice, ast.Slice) and e.slice.lower is None and e.slice.step is None and isinstance(e.slice.upper, ast.UnaryOp) \
                and isinstance(e.slice.upper.op, ast.USub) and isinstance(e.slice.upper.operand, ast.Constant) and isinstance(e.slice.upper.operand.value, int):
            n_ = e.slice.upper.operand.value
            inner = self.ev(e.value)
            if len(inner) == 1 and inner[0][0] == "rep" and not inner[0][2] and inner[0][1] and inner[0][1][-1][0] == "lit" and len(inner[0][1][-1][1]) == n_:
                # every element ends with the same n characters and the last n are cut: those characters separate the elements
                return [("rep", [p_ for p_ in inner[0][1][:-1]], [inner[0][1][-1]])]
            raise Inconclusive("template: slice `%s`" % " ".join(u(e).split())[:60])
        if isinstance(e, ast.Name) and e.id not in self.roles:
            lt = self.local_text(e.id)
            if lt is not None:
                return self.ev(lt[1]) if lt[0] == "expr" else list(lt[1])
        if isinstance(e, ast.Name):
            r = self.roles.get(e.id)
            if r is None:
                raise Inconclusive("template: unknown name %s" % e.id)
            if isinstance(r, list):
                return list(r)
            if r[0] == "value":
                return self.value_hole(r[1])
            if r[0] == "key":
                return [("hole", "SH_NAME")]
        if isinstance(e, ast.Call) and isinstance(e.func, ast.Attribute) and e.func.attr == "format":
            tmpl = self.ev(e.func.value)
            if any(k != "lit" for k, _ in tmpl):
                raise Inconclusive("template: format on a non-constant template")
            text = "".join(v for _, v in tmpl)
            if e.keywords:
                raise Inconclusive("template: keyword format fields")
            out = []
            auto = 0
            pos = 0
            for m in re.finditer(r"\{(\d*)\}", text):
                out.append(("lit", text[pos:m.start()]))
                idx = int(m.group(1)) if m.group(1) else auto
                auto += 1
                if idx >= len(e.args) or isinstance(e.args[idx], ast.Starred):
                    raise Inconclusive("template: format field without a plain argument")
                out += self.ev(e.args[idx])
                pos = m.end()
            out.append(("lit", text[pos:]))
            if "{" in re.sub(r"\{(\d*)\}", "", text):
                raise Inconclusive("template: complex format field in %r" % text)
            return [p for p in out if p != ("lit", "")]
        if isinstance(e, ast.BinOp) and isinstance(e.op, ast.Add):
            return self.ev(e.left) + self.ev(e.right)
        if isinstance(e, ast.Subscript) and isinstance(e.value, ast.Constant) and e.value.value == "+-":
            s = " ".join(u(e.slice).split())
            m = re.fullmatch(r"int\((\w+)\.imag < 0\)", s) or re.fullmatch(r"(\w+)\.imag < 0", s)
            if m and self.is_value(m.group(1)):
                return [("hole", "SH_SIGN")]
            raise Inconclusive("template: sign selector `%s`" % s)
        if isinstance(e, ast.IfExp) and isinstance(e.body, ast.Constant) and isinstance(e.orelse, ast.Constant):
            # sign selector written as a conditional: "-" if v.imag < 0 else "+"   (or the mirrored test)
            t = " ".join(u(e.test).split())
            m = re.fullmatch(r"(\w+)\.imag < 0", t)
            m2 = re.fullmatch(r"(\w+)\.imag >= 0", t)
            if m and self.is_value(m.group(1)) and (e.body.value, e.orelse.value) == ("-", "+"):
                return [("hole", "SH_SIGN")]
            if m2 and self.is_value(m2.group(1)) and (e.body.value, e.orelse.value) == ("+", "-"):
                return [("hole", "SH_SIGN")]
            # any other conditional between two string pieces: either may be written
            return [("alt", [self.ev(e.body), self.ev(e.orelse)])]
        if isinstance(e, ast.IfExp):
            return [("alt", [self.ev(e.body), self.ev(e.orelse)])]
        if False:
            pass
        if isinstance(e, ast.Attribute) and isinstance(e.value, ast.Name) and self.is_value(e.value.id) and e.attr in ("real", "imag"):
            return [("hole", "SH_FLOAT")]
        if isinstance(e, ast.Call):
            f = u(e.func)
            if f in ("np.abs", "abs", "numpy.abs", "np.absolute", "np.fabs") and len(e.args) == 1 and isinstance(e.args[0], ast.Attribute) and e.args[0].attr in ("real", "imag") \
                    and isinstance(e.args[0].value, ast.Name) and self.is_value(e.args[0].value.id):
                return [("hole", "SH_UFLOAT")]
            if f == "int" and len(e.args) == 1 and isinstance(e.args[0], ast.Name) and self.is_value(e.args[0].id):
                return [("hole", "SH_INT")]
            if f in ("str", "repr") and len(e.args) == 1 and isinstance(e.args[0], ast.Name) and self.is_value(e.args[0].id):
                return self.value_hole(self.roles[e.args[0].id][1], repr_=(f == "repr"))
            if isinstance(e.func, ast.Name) and e.func.id in self.roles and isinstance(self.roles[e.func.id], tuple) and self.roles[e.func.id][0] == "callable":
                target = self.roles[e.func.id][1]
                if isinstance(target, ast.Lambda) and len(target.args.args) == len(e.args) == 1 and isinstance(e.args[0], ast.Name) and self.is_value(e.args[0].id):
                    sub = dict(self.roles)
                    sub[target.args.args[0].arg] = self.roles[e.args[0].id]
                    return TemplateEval(self.ix, self.mod, self.fn, sub, self.lenient).ev(target.body)
                if isinstance(target, ast.Attribute) and target.attr == "format" and len(e.args) == 1:
                    fake = ast.Call(func=target, args=list(e.args), keywords=[])
                    return self.ev(fake)
                raise Inconclusive("template: local callable `%s`" % u(target)[:50])
            if isinstance(e.func, ast.Name):
                q = self.ix.resolve_name(self.mod, e.func.id)
                if q in self.ix.funcs:
                    if q not in ("program.sympy_to_blackbird", "program.list_to_blackbird", "program.numpy_to_blackbird"):
                        r = norm.inline_call(self.ix, self.mod, e)
                        if r is not None:
                            return self.ev(r[0])
                    return [("trusted", q, tuple(u(a) for a in e.args))]
        if self.lenient:
            self.approx.append(" ".join(u(e).split())[:50])
            return [("hole", "SH_ANYTEXT")]
        raise Inconclusive("template: expression `%s`" % " ".join(u(e).split())[:70])

    def is_value(self, name):
        r = self.roles.get(name)
        return isinstance(r, tuple) and r[0] == "value"

    def value_hole(self, kind, repr_=False):
        if kind in ("Sym", "RegRef"):
            return [("trusted", "str(%s)" % kind, ())]
        if kind in ("List", "NdArray"):
            return [("repr", kind)]
        if kind == "PName":
            return [("hole", "SH_PNAME")]
        if repr_ and kind in ("NpInt", "NpFloat", "NpComplex", "NpBool", "PyStr"):
            return [("repr", kind)]
        return [("hole", FORMAT_SHAPE[kind])]


def isinstance_chain(stmts, var):
    """[(test or None for else, body)] of the first if/elif chain over isinstance(var, ...) / not isinstance(...) tests in stmts"""
    for s in stmts:
        if isinstance(s, ast.If) and any(isinstance(n, ast.Call) and u(n.func) == "isinstance" and n.args and u(n.args[0]) == var for n in ast.walk(s.test)):
            arms = []
            cur = s
            while True:
                arms.append((cur.test, cur.body))
                if len(cur.orelse) == 1 and isinstance(cur.orelse[0], ast.If):
                    cur = cur.orelse[0]
                    continue
                arms.append((None, cur.orelse))
                break
            return arms, s
    return None, None


def possible_arms(arms, var, kind):
    """arms that may catch a value of this kind: every arm whose test is true or undecidable for the kind, up to the first that is definitely true"""
    k = XK[kind]

    def atom(node):
        if isinstance(node, ast.Name) and node.id == var:
            return k
        return AEval.NO
    out = []
    for test, body in arms:
        if test is None:
            out.append((body, "else", True))
            break
        ev = AEval(atom)
        try:
            c = ev.truth(ev.ev(test))
        except Exception:
            # undecidable conjunct: if an isinstance conjunct on the value is definitely false the arm cannot match
            c = None
            if isinstance(test, ast.BoolOp) and isinstance(test.op, ast.And):
                for part in test.values:
                    try:
                        if not ev.truth(ev.ev(part)):
                            c = False
                            break
                    except Exception:
                        pass
        if c is True:
            out.append((body, " ".join(u(test).split()), True))
            break
        if c is None:
            out.append((body, " ".join(u(test).split()), False))
    return out


def select_arm(arms, var, kind):
    pa = possible_arms(arms, var, kind)
    if not pa:
        return None, None
    return pa[-1][0], pa[-1][1]


def appended(ix, body, collections, inner_binding=None, fn=None, kind_atom=None, keep=("var_name",)):
    """the expressions appended to one of `collections` on each path through the arm: a conditional inside the arm is decided by the
    binding (nested p-type tests) or by the value kind where that is possible, otherwise both branches are followed.
    -> list of paths, each a list of (call, expression, statement)"""
    from .c15 import eval_pred

    def decide(test):
        if inner_binding is not None:
            try:
                return bool(eval_pred(ix, "program", test, inner_binding, fn=fn))
            except Exception:
                pass
        if kind_atom is not None:
            try:
                ev = AEval(kind_atom)
                return bool(ev.truth(ev.ev(test)))
            except Exception:
                pass
        return None

    def walk(stmts, acc, env):
        stmts = list(stmts)
        while stmts:
            s = stmts.pop(0)
            if isinstance(s, ast.If):
                c = decide(s.test)
                if c is None:
                    return walk(list(s.body) + stmts, list(acc), env) + walk(list(s.orelse) + stmts, list(acc), env)
                stmts = list(s.body if c else s.orelse) + stmts
                continue
            if isinstance(s, (ast.Raise, ast.Return)):
                return [acc] if isinstance(s, ast.Return) else []
            if isinstance(s, (ast.For, ast.While, ast.Try, ast.With)):
                if any(isinstance(n, ast.Call) and isinstance(n.func, ast.Attribute) and n.func.attr == "append" and u(n.func.value) in collections for n in ast.walk(s)):
                    raise Inconclusive("template: the value is appended inside a loop / try in the arm")
                continue
            # local string pieces built up on this path (`expr = "pi"; expr += "/{}".format(den)`) are folded into the appended expression
            if isinstance(s, ast.Assign) and len(s.targets) == 1 and isinstance(s.targets[0], ast.Name) and s.targets[0].id not in collections and s.targets[0].id not in keep:
                env = dict(env)
                env[s.targets[0].id] = norm._Sub(env).visit(copy.deepcopy(s.value))
                continue
            if isinstance(s, ast.AugAssign) and isinstance(s.op, ast.Add) and isinstance(s.target, ast.Name) and s.target.id in env:
                env = dict(env)
                env[s.target.id] = ast.BinOp(left=env[s.target.id], op=ast.Add(), right=norm._Sub(env).visit(copy.deepcopy(s.value)))
                continue
            for n in ast.walk(s):
                if isinstance(n, ast.Call) and isinstance(n.func, ast.Attribute) and n.func.attr == "append" and u(n.func.value) in collections and n.args:
                    e2 = norm._Sub({k_: v_ for k_, v_ in env.items() if stringish(v_)}).visit(copy.deepcopy(n.args[0])) if env else n.args[0]
                    ast.fix_missing_locations(e2)
                    acc = acc + [(n, e2, s)]
        return [acc]

    def stringish(v_):
        return norm.fmt_parts(v_) is not None or isinstance(v_, (ast.IfExp, ast.BinOp, ast.JoinedStr)) or (isinstance(v_, ast.Constant) and isinstance(v_.value, str))
    paths = walk(body, [], {})
    if len(paths) > 24:
        raise Inconclusive("template: too many paths through the arm")
    return paths


class Slot:
    def __init__(self, name, fn, loop, var, key, collections, prefix):
        self.name, self.fn, self.loop, self.var, self.key, self.collections, self.prefix = name, fn, loop, var, key, collections, prefix


def find_slots(ix):
    global LIST_REBOUND
    LIST_REBOUND = None
    f = ix.func(SER)
    fn = f.node
    slots = []
    global CONVERTED
    CONVERTED = []
    for l in walk_shallow(fn):
        if not isinstance(l, ast.For):
            continue
        it = " ".join(u(l.iter).split())
        # a loop over a converted view of the arguments (map(f, op['args']), a generator expression): what is dispatched is no longer the
        # stored value
        if isinstance(l.iter, ast.Call) and u(l.iter.func) in ("map", "filter") and any(x in it for x in ("op['args']", "op['kwargs']", "data['options']")):
            CONVERTED.append((f, l, it))
            continue
        if isinstance(l.iter, (ast.GeneratorExp, ast.ListComp)) and any(x in it for x in ("op['args']", "op['kwargs']", "data['options']")):
            CONVERTED.append((f, l, it))
            continue
        # ... or the loop variable is rebound before the dispatch
        tv = [x.id for x in ast.walk(l.target) if isinstance(x, ast.Name)]
        if any(x in it for x in ("op['args']", "op['kwargs'].items()", "['options'].items()")):
            for s_ in l.body:
                if isinstance(s_, ast.If):
                    break
                if isinstance(s_, ast.Assign) and any(isinstance(t_, ast.Name) and t_.id in tv for t_ in s_.targets):
                    CONVERTED.append((f, s_, " ".join(u(s_).split())[:60]))
        def colls(default):
            # the lists this loop appends to (the code's own names), e.g. args / kwargs / option_strings
            got = {u(c.func.value) for c in ast.walk(l) if isinstance(c, ast.Call) and isinstance(c.func, ast.Attribute) and c.func.attr == "append" and isinstance(c.func.value, ast.Name)
                   and c.func.value.id != "script"}
            return tuple(sorted(got)) if len(got) == 1 else default
        if it in ("op['args']", 'op["args"]'):
            slots.append(Slot("positional argument", f, l, u(l.target), None, colls(("args",)), False))
        elif it in ("op['kwargs'].items()", 'op["kwargs"].items()'):
            slots.append(Slot("keyword argument", f, l, u(l.target.elts[1]), u(l.target.elts[0]), colls(("kwargs",)), True))
        elif re.fullmatch(r"\w+\[['\"]options['\"]\]\.items\(\)", it) and isinstance(l.target, ast.Tuple) and len(l.target.elts) == 2:
            slots.append(Slot("metadata option", f, l, u(l.target.elts[1]), u(l.target.elts[0]), colls(("option_strings",)), True))
    g = ix.funcs.get("program.list_to_blackbird")
    if g is None:
        # no list formatter: a list value is then written by whatever arm of the argument / option dispatch catches it (kind List there)
        return slots
    rebound = [n for n in ast.walk(g.node) if isinstance(n, (ast.Assign, ast.AugAssign)) and any(isinstance(x, ast.Name) and x.id == g.params[0] and isinstance(x.ctx, ast.Store) for x in ast.walk(n))]
    for l in walk_shallow(g.node):
        if isinstance(l, ast.For) and u(l.iter) == g.params[0] and not rebound:
            cols = {u(c.func.value) for c in ast.walk(l) if isinstance(c, ast.Call) and isinstance(c.func, ast.Attribute) and c.func.attr == "append" and isinstance(c.func.value, ast.Name)}
            slots.append(Slot("list element", g, l, u(l.target), None, tuple(sorted(cols)) or ("elements",), False))
    if rebound:
        LIST_REBOUND = (g, rebound[0])
    return slots


def render_checks(rep, R, ix, L, slot, kinds, tdm_kinds=True):
    """one obligation per (slot, kind): the arm that catches the kind renders it in the form that reads back as the same kind"""
    f = slot.fn
    arms, chain = isinstance_chain(slot.loop.body, slot.var)
    if arms is None:
        raise Inconclusive("%s: isinstance dispatch over `%s` not recognised" % (slot.name, slot.var))
    for kind in kinds:
      pa = possible_arms(arms, slot.var, kind)
      site = ix.site(f, chain)
      what = "%s of kind %s" % (slot.name, kind)
      if not pa:
          rep.bad(R, site, "%s is formatted by some arm" % what, "no arm of the dispatch catches it", key="%s|%s|noarm" % (slot.name, kind))
          continue
      for body, which, sure in pa:
          binding = None
          if kind in ("PyStr", "PName"):
              s = "p0" if kind == "PName" else "hello"
              t = "tdm" if kind == "PName" else "other"
              binding = {slot.var: s, "self.programtype['name']": t, 'self.programtype["name"]': t}
          def kind_atom(node, kind=kind):
              if isinstance(node, ast.Name) and node.id == slot.var and kind in XK:
                  return XK[kind]
              return AEval.NO
          try:
              paths = appended(ix, body, slot.collections, binding, fn=f.node, kind_atom=kind_atom)
          except Exception as e:
              if kind == "NdArray":
                  continue          # the array arm is decided structurally by the hoisting rule
              rep.unknown(R, site, "%s is appended exactly once by the arm `%s`" % (what, which), "conditional inside the arm: %s" % e)
              continue
          if not paths or any(len(apps) != 1 for apps in paths):
              rep.unknown(R, site, "%s is appended exactly once by the arm `%s`" % (what, which), "appends per path: %s" % [len(a_) for a_ in paths])
              continue
          for apps in paths:
            call, expr, stmt = apps[0]
            roles = {slot.var: ("value", kind)}
            if slot.key:
                roles[slot.key] = ("key",)
            roles["var_name"] = [("hole", "SH_ANAME")]
            roles.update(local_aliases(body, roles))
            try:
                pieces = TemplateEval(ix, f.mod, f.node, roles).ev(expr)
            except Inconclusive as e:
                # the exact rendering is not known - but if even the over-approximation (unknown pieces = any text) has nothing in common
                # with the form this kind must be written in, every rendering on this path is wrong
                if kind in READ_FORM and kind != "NdArray":
                    try:
                        te = TemplateEval(ix, f.mod, f.node, roles, lenient=True)
                        approx = te.ev(expr)
                        if slot.prefix and len(approx) >= 2 and approx[0] == ("hole", "SH_NAME") and approx[1][0] == "lit" and approx[1][1].startswith("="):
                            approx = ([("lit", approx[1][1][1:])] if approx[1][1][1:] else []) + approx[2:]
                        if not any(p_[0] in ("trusted", "repr") for p_ in flat_pieces(approx)):
                            w_ = intersect_witness(L.of_pieces(approx), L.of_rule(READ_FORM[kind][0]))
                            if w_ is None:
                                rep.bad(R, ix.site(f, call), "%s: every rendering is a %s" % (what, READ_FORM[kind][0][2:]),
                                        "on one path the arm writes `%s` (unknown pieces: %s): whatever they are, the text is not in the language of %s" % (
                                            show_pieces(approx)[:80], te.approx[:3], READ_FORM[kind][0]), key="%s|%s|approx" % (slot.name, kind))
                                continue
                    except Inconclusive:
                        pass
                if kind == "NdArray":
                    rep.bad(R, ix.site(f, call), "%s is replaced by the name of a hoisted declaration of its own" % what,
                            "arm `%s` writes `%s`: the value may be replaced by a reference to a different variable" % (which, " ".join(u(expr).split())[:60]), key="%s|%s|%s" % (slot.name, kind, which[:40]))
                else:
                    rep.unknown(R, ix.site(f, call), "%s: template of `%s`" % (what, " ".join(u(expr).split())[:60]), str(e))
                continue
            if slot.prefix:
                if len(pieces) >= 2 and pieces[0] == ("hole", "SH_NAME") and pieces[1][0] == "lit" and pieces[1][1].startswith("="):
                    pieces = ([("lit", pieces[1][1][1:])] if pieces[1][1][1:] else []) + pieces[2:]
                else:
                    rep.bad(R, ix.site(f, call), "%s is written as <name>=<value>" % what, "template %s" % (pieces,), key="%s|%s|prefix" % (slot.name, kind))
                    continue
            decide(rep, R, ix, L, f, call, what, kind, pieces, which, slot)
          continue
          if slot.prefix:
              if len(pieces) >= 2 and pieces[0] == ("hole", "SH_NAME") and pieces[1][0] == "lit" and pieces[1][1].startswith("="):
                  pieces = ([("lit", pieces[1][1][1:])] if pieces[1][1][1:] else []) + pieces[2:]
              else:
                  rep.bad(R, ix.site(f, call), "%s is written as <name>=<value>" % what, "template %s" % (pieces,), key="%s|%s|prefix" % (slot.name, kind))
                  continue
          decide(rep, R, ix, L, f, call, what, kind, pieces, which, slot)


def flat_pieces(pieces):
    for p_ in pieces:
        if p_[0] == "alt":
            for a in p_[1]:
                yield from flat_pieces(a)
        else:
            yield p_


def show_pieces(pieces):
    out = []
    for p_ in pieces:
        if p_[0] == "lit":
            out.append(p_[1])
        elif p_[0] == "alt":
            out.append("(" + " | ".join(show_pieces(a) for a in p_[1]) + ")")
        elif p_[0] == "rep":
            out.append("(%s)(%s ...)*" % (show_pieces(p_[1]), show_pieces(p_[2])))
        else:
            out.append("<%s>" % (p_[1],))
    return "".join(out)


def decide(rep, R, ix, L, f, call, what, kind, pieces, which, slot):
    site = ix.site(f, call)
    key = "%s|%s" % (slot.name, kind)
    src = " ".join(u(call).split())[:80]
    if any(p[0] == "repr" for p in flat_pieces(pieces)):
        bad = [p[1] for p in flat_pieces(pieces) if p[0] == "repr"]
        rep.bad(R, site, "%s is rendered in Blackbird syntax by `%s`" % (what, src), "str()/format() of a %s is Python repr syntax (np.int64(2), single-quoted strings, array(...)), not Blackbird" % bad[0], key=key)
        return
    trusted = [p for p in flat_pieces(pieces) if p[0] == "trusted"]
    if kind == "Sym":
        ok = len(pieces) == 1 and trusted and trusted[0][1] == "program.sympy_to_blackbird"
        rep.check(ok, R, site, "%s is written through the parameter re-bracing function" % what,
                  "arm `%s` writes `%s`: template parameters lose their braces and re-load as undefined names" % (which, src), key=key)
        return
    if kind == "RegRef":
        ok = len(pieces) == 1 and trusted and trusted[0][1] == "str(RegRef)"
        rep.check(ok, R, site, "%s is written as its expression text (str of the transform)" % what, "template %s" % (pieces,), key=key)
        return
    if kind == "List":
        ok = len(pieces) == 1 and trusted and trusted[0][1] == "program.list_to_blackbird"
        rep.check(ok, R, site, "%s is written element by element through list_to_blackbird" % what, "arm `%s` writes `%s`" % (which, src), key=key)
        return
    if kind == "NdArray":
        ok = pieces == [("hole", "SH_ANAME")]
        rep.check(ok, R, site, "%s is replaced by the name of a hoisted array declaration" % what, "template %s" % (pieces,), key=key)
        return
    if trusted:
        rep.bad(R, site, "%s is rendered by a literal template" % what, "template %s" % (pieces,), key=key)
        return
    form, forbidden = READ_FORM[kind]
    lang = L.of_pieces(pieces)
    w = included(lang, L.of_rule(form))
    shown = show_pieces(pieces)
    if w is not None:
        rep.bad(R, site, "%s: every rendering `%s` is a %s" % (what, shown, form[2:]), "e.g. %r is written, which is not in the language of %s" % (w, form), key=key)
        return
    for fb in forbidden:
        w = intersect_witness(lang, L.of_rule(fb))
        if w is not None:
            rep.bad(R, site, "%s: no rendering `%s` reads back as another kind" % (what, shown), "%r would be read as %s" % (w, fb[2:]), key=key + "|" + fb)
            return
    rep.ok(R, site, "%s: arm `%s` renders `%s`, included in %s (reads back as the same kind)" % (what, which, shown, form))


# ------------------------------------------------------------------------------------------------------------ C01.1 / C09.1
def kind_coverage(rep, R, ix, M, extra_kinds=()):
    L = Lang(M.G)
    slots = find_slots(ix)
    names = {s.name for s in slots}
    if LIST_REBOUND is not None:
        g, n = LIST_REBOUND
        rep.bad(R, ix.site(g, n), "list_to_blackbird formats the elements it is given", "`%s` replaces the list by a converted copy (mixed lists are coerced to one type)" % " ".join(u(n).split())[:70], key="list|rebound")
        slots = [s for s in slots if s.name != "list element"]
        names.add("list element")
    for g_, n_, txt_ in CONVERTED:
        rep.bad(R, ix.site(g_, n_), "every argument / option value is dispatched and written as it is stored in the program",
                "`%s`: the values are converted before the type dispatch (a conversion can change the kind - a one-element array becomes a scalar, a NumPy scalar a Python one)" % txt_[:70],
                key="converted|" + txt_[:50])
    if CONVERTED:
        names |= {"positional argument", "keyword argument"}
    for need in ("positional argument", "keyword argument", "metadata option") + (("list element",) if "program.list_to_blackbird" in ix.funcs else ()):
        if need not in names:
            raise Inconclusive("serialize: %s loop not recognised" % need)
    list_early_returns(rep, R, ix, [s for s in slots if s.name == "list element"], list(LOADER_SCALARS) + list(extra_kinds))
    for s in slots:
        kinds = list(LOADER_SCALARS) + list(extra_kinds)
        if s.name in ("positional argument", "keyword argument"):
            kinds += ["RegRef", "NdArray", "PName"]
        if s.name in ("keyword argument", "metadata option"):
            kinds += ["List"]
        if s.name == "metadata option":
            kinds = [k for k in kinds if k not in ("Sym",)]
        render_checks(rep, R, ix, L, s, kinds)
    return L, slots


REPR_IS_FORMAT = ("PyInt", "PyBool", "PyFloat", "PyComplex")      # kinds whose repr() inside str(list) equals their "{}".format rendering


def list_early_returns(rep, R, ix, slots, kinds):
    """a return of list_to_blackbird in front of the element loop (a fast path) writes the whole list at once: decided per element kind on the
    homogeneous list of that kind - is the return reached, and does what it returns render that kind the way the element arms would"""
    from ..py.guards import Reach
    for slot in slots:
        g = slot.fn
        fn = g.node
        lst = g.params[0]
        early = [r for r in walk_shallow(fn) if isinstance(r, ast.Return) and pos(r) < pos(slot.loop)]
        for r in early:
            txt = " ".join(u(r.value).split()) if r.value is not None else "None"
            for kind in kinds:
                if kind not in XK and kind not in KINDS:
                    continue
                model = XK.get(kind) or KINDS[kind]

                def atom(node, model=model):
                    if isinstance(node, ast.Name) and node.id == lst:
                        return (model, model)
                    return AEval.NO
                try:
                    reached = Reach(fn, r).may_reach(atom)
                except Inconclusive:
                    reached = True
                if not reached:
                    continue
                whole = txt in ("str(%s)" % lst, "repr(%s)" % lst, "'{}'.format(%s)" % lst, "f'{%s}'" % lst, "'%%s' %% %s" % lst, "str(list(%s))" % lst)
                if whole:
                    rep.check(kind in REPR_IS_FORMAT, R, ix.site(g, r), "list of %s elements: `return %s` writes each element as the element arms do" % (kind, txt),
                              "str() of a list prints its elements with repr(): %s" % ("a NumPy scalar is printed as np.float64(...) / np.int64(...), which is no Blackbird number" if kind.startswith("Np")
                                                                                       else "a string is printed in single quotes, which is no Blackbird string" if kind == "PyStr" else "repr() of this kind is not its Blackbird form"),
                              key="list|early|%s|%s" % (txt[:40], kind))
                else:
                    rep.unknown(R, ix.site(g, r), "list of %s elements: `return %s` in front of the element loop renders the elements as the element arms do" % (kind, txt[:50]), "fast path not recognised")


# ------------------------------------------------------------------------------------------------------------ C01.3 re-bracing
def rebracing(rep, R, ix):
    f = ix.func("program.sympy_to_blackbird")
    fn = f.node
    # (i) no sequential replace
    for n in walk_shallow(fn):
        if isinstance(n, ast.For) and "free_symbols" in u(n.iter) or (isinstance(n, ast.Call) and isinstance(n.func, ast.Attribute) and n.func.attr == "replace"):
            rep.bad(R, ix.site(f, n), "parameters are braced in one pass", "sequential substring replacement re-substitutes inside longer or already braced names", key="sequential")
    # (ii) regex patterns are anchored on both sides
    consts = [n.value for n in ast.walk(fn) if isinstance(n, ast.Constant) and isinstance(n.value, str)]
    subs = [n for n in walk_shallow(fn) if isinstance(n, ast.Call) and isinstance(n.func, ast.Attribute) and n.func.attr in ("sub", "subn", "compile", "finditer", "split")]
    if subs:
        left = any(c.startswith((r"\b", r"(?<!")) for c in consts)
        right = any(c.endswith((r"\b", r")\b")) or "(?!" in c for c in consts)
        rep.check(left and right, R, ix.site(f, subs[0]), "the substitution pattern anchors every name with a word boundary on both sides (only whole identifiers are braced)",
                  "string constants used: %r: a name is also matched inside another token (a longer name, a function name, the exponent of a float)" % consts, key="anchors")
        esc = any(isinstance(n, ast.Call) and u(n.func) == "re.escape" for n in ast.walk(fn))
        rep.check(esc, R, ix.site(f, subs[0]), "names are escaped before they are put into the pattern", key="escape")
        repl = [c for c in consts if "{" in c and "\\1" in c or "\\g<" in c]
        rep.check(bool(repl), R, ix.site(f, subs[0]), "the replacement wraps the matched name in braces", "constants %r" % consts, key="replacement")
    else:
        # other accepted idioms: printer subclass / xreplace to braced symbols
        txt = u(fn)
        if "_print_Symbol" in txt or "xreplace" in txt or ".subs(" in txt:
            rep.ok(R, ix.site(f), "parameters are braced through a SymPy printer / symbol substitution")
        else:
            raise Inconclusive("sympy_to_blackbird: re-bracing idiom not recognised")
    rets = [n for n in walk_shallow(fn) if isinstance(n, ast.Return)]
    rep.check(all("str(%s)" % f.params[0] in u(r) or "pattern" in u(r) or "sub(" in u(r) for r in rets), R, ix.site(f), "the result is derived from str(expr)", key="from str")
    # every free symbol is braced: the name list is all of expr.free_symbols (no filter, no intersection with another collection)
    ex = f.params[0]
    srcs = [n for n in ast.walk(fn) if isinstance(n, (ast.ListComp, ast.GeneratorExp, ast.SetComp)) and any("free_symbols" in u(g.iter) for g in n.generators)]
    filt = [n for n in srcs if any(g.ifs for g in n.generators)]
    setops = [n for n in ast.walk(fn) if isinstance(n, ast.BinOp) and isinstance(n.op, (ast.BitAnd, ast.Sub)) and "free_symbols" in u(n)] + \
             [n for n in ast.walk(fn) if isinstance(n, ast.Call) and isinstance(n.func, ast.Attribute) and n.func.attr in ("intersection", "difference") and "free_symbols" in u(n)]
    bad = filt + setops
    rep.check(not bad, R, ix.site(f, bad[0]) if bad else ix.site(f), "all free symbols of the expression are braced (the name list is not filtered)",
              "`%s`: symbols outside the filter are written without braces and re-load as undefined names" % (" ".join(u(bad[0]).split())[:70] if bad else ""), key="unfiltered")
    rep.check(len(f.params) == 1, R, ix.site(f), "sympy_to_blackbird depends on the expression only", "parameters %s" % f.params, key="arity")


# ------------------------------------------------------------------------------------------------------------ structure of the script
def structure(rep, R, ix, M):
    G = M.G
    f = ix.func(SER)
    fn = f.node
    # separators: every join uses ", "
    for q in (SER, "program.list_to_blackbird", N2B):
        if q == "program.list_to_blackbird" and q not in ix.funcs:
            continue
        g = ix.func(q)
        for n in walk_shallow(g.node):
            if isinstance(n, ast.Call) and isinstance(n.func, ast.Attribute) and n.func.attr == "join" and isinstance(n.func.value, ast.Constant):
                sep = n.func.value.value
                if sep in ("\n", ""):
                    continue
                rep.check(sep == ", ", R, ix.site(g, n), "`%s` separates elements with comma + space (a bare comma between numbers lexes as one SEQUENCE token)" % " ".join(u(n).split())[:60],
                          "separator %r" % sep, key="%s|sep|%s" % (q, " ".join(u(n).split())[:40]))
    # metadata lines
    want = {"name": G.literal_of("PROGNAME"), "version": G.literal_of("VERSION")}
    inits = [n for n in fn.body if isinstance(n, ast.Assign) and u(n.targets[0]) == "script" and isinstance(n.value, ast.List)]
    from ..py import norm
    ok = len(inits) == 1 and [norm.canon_text(e) for e in inits[0].value.elts] == ["%s {self.name}" % want["name"], "%s {self.version}" % want["version"]]
    rep.check(ok, R, ix.site(f, inits[0]) if inits else ix.site(f), "the script starts with '%s <name>' and '%s <version>' (the grammar's keywords)" % (want["name"], want["version"]), key="meta|head")
    loops = [n for n in fn.body if isinstance(n, ast.For) and isinstance(n.iter, (ast.List, ast.Tuple)) and n.iter.elts and all(isinstance(e, ast.Tuple) for e in n.iter.elts)]
    okm = False
    if loops:
        pairs = [(e.elts[0].value if isinstance(e.elts[0], ast.Constant) else None, u(e.elts[1])) for e in loops[0].iter.elts]
        okm = pairs == [(G.literal_of("TARGET"), "self.target"), (G.literal_of("PROGTYPE"), "self.programtype")]
        # the lines go to the script directly, or to a list that is added to the script as a whole right after the loop
        sinks = {"script"}
        nxt = fn.body[fn.body.index(loops[0]) + 1] if fn.body.index(loops[0]) + 1 < len(fn.body) else None
        if isinstance(nxt, ast.Expr) and isinstance(nxt.value, ast.Call) and u(nxt.value.func) == "script.extend" and len(nxt.value.args) == 1 and isinstance(nxt.value.args[0], ast.Name):
            acc_ = nxt.value.args[0].id
            init_ = [n for n in fn.body if isinstance(n, ast.Assign) and u(n.targets[0]) == acc_]
            if len(init_) == 1 and isinstance(init_[0].value, ast.List) and not init_[0].value.elts and fn.body.index(init_[0]) < fn.body.index(loops[0]):
                sinks = {acc_}
        line = [n for n in ast.walk(loops[0]) if isinstance(n, ast.Call) and isinstance(n.func, ast.Attribute) and n.func.attr == "append" and u(n.func.value) in sinks]
        # the line: '<keyword> <name>' followed by the options text - held in a local, or written in place (empty / ' (<k>=<v>, ...)');
        # the names of the loop variables and of the locals are the code's own
        tg = loops[0].target
        kwv, dv = (tg.elts[0].id, tg.elts[1].id) if isinstance(tg, ast.Tuple) and len(tg.elts) == 2 and all(isinstance(e, ast.Name) for e in tg.elts) else (None, None)
        OPTS_RE = r" \(\{', '\.join\((?P<coll>\w+)\)\}\)"
        line_re = re.compile(r"^\{%s\} \{%s\['name'\]\}(?P<rest>|\{(?P<optvar>\w+)\}|%s)$" % (re.escape(kwv or "?"), re.escape(dv or "?"), OPTS_RE))
        ms = [line_re.match(norm.canon_text(l_.args[0]) or "") for l_ in line]
        okm = okm and kwv is not None and len(line) >= 1 and all(ms) and any(m_.group("rest") for m_ in ms if m_)
        optvars = {m_.group("optvar") for m_ in ms if m_ and m_.group("optvar")}
        optvar = optvars.pop() if len(optvars) == 1 else None
        okm = okm and not optvars
        # a line that reads the local `options` must get its value in the same iteration: an unconditional (re)binding at the top level of
        # the loop body - or in both branches of an if/else there - precedes it; a binding left over from the previous declaration is not one
        def binds_options(stmts):
            for s_ in stmts:
                if isinstance(s_, ast.Assign) and any(isinstance(t_, ast.Name) and t_.id == optvar for t_ in s_.targets):
                    return True
                if isinstance(s_, ast.If) and s_.orelse and binds_options(s_.body) and binds_options(s_.orelse):
                    return True
            return False

        def fresh_per_iteration(stmts):
            """every statement of this block that reads `options` is preceded, in this block or an enclosing one of the loop body, by a binding"""
            bound = False
            for s_ in stmts:
                reads = any(isinstance(x, ast.Name) and x.id == optvar and isinstance(x.ctx, ast.Load) for x in ast.walk(s_))
                if isinstance(s_, ast.If):
                    if not bound and not (fresh_per_iteration(s_.body) and fresh_per_iteration(s_.orelse)):
                        return False
                elif reads and not bound:
                    return False
                bound = bound or binds_options([s_])
            return True
        if optvar is not None:
            rep.check(fresh_per_iteration(loops[0].body), R, ix.site(f, loops[0]), "the option text of a metadata line is computed for that line (bound anew in every iteration before it is written)",
                      "`%s` can still hold the text of the previous declaration when the line is written (the type line repeats the target's options)" % optvar, key="meta|options fresh")
        opt = [n for n in ast.walk(loops[0]) if isinstance(n, ast.Assign) and optvar is not None and u(n.targets[0]) == optvar and not isinstance(n.value, ast.Constant)]
        okm = okm and len(opt) <= 1 and all(re.fullmatch(OPTS_RE, norm.canon_text(o_.value) or "") for o_ in opt) and (bool(opt) or any(m_ and m_.group("coll") for m_ in ms))
    rep.check(okm, R, ix.site(f, loops[0]) if loops else ix.site(f), "target and type lines are '<keyword> <name>[ (<k>=<v>, ...)]' in that order, written only when a name is set", key="meta|target type")
    # statement lines
    lines = [n for n in walk_shallow(fn) if isinstance(n, ast.Call) and isinstance(n.func, ast.Attribute) and n.func.attr == "append" and u(n.func.value) == "script" and "|" in u(n)]
    txt = sorted(str(norm.canon_text(n.args[0])) for n in lines)
    one_piece = "({', '.join(args + kwargs)})"
    inline = txt == ["{op['op']} | {modes}", "{op['op']}%s | {modes}" % one_piece]       # the argument text written in place (or a once-bound local looked through)
    args = sorted(str(norm.canon_text(n.value)) for n in walk_shallow(fn) if isinstance(n, ast.Assign) and u(n.targets[0]) == "arguments")
    three = sorted(["({', '.join(args)}, {', '.join(kwargs)})", "({', '.join(args)})", "({', '.join(kwargs)})"])
    ok_line = inline or txt == ["{op['op']} | {modes}", "{op['op']}{arguments} | {modes}"]
    ok_args = args in ([one_piece], three) or (inline and args == [])
    lang = None
    if not (ok_line and ok_args):
        lang = statement_language(ix, M, f)
    if lang is not None and lang[0] is True:
        rep.ok(R, ix.site(f), "statement lines are '<op>[(<arguments>)] | <modes>', positional arguments first (decided as a language on the four models of empty / non-empty "
                              "positional and keyword argument lists: %s)" % "; ".join(lang[1]))
    elif lang is not None and lang[0] is False:
        rep.bad(R, ix.site(f), "statement lines are '<op>[(<arguments>)] | <modes>' with positional arguments first", lang[1], key="stmt|language")
    elif lang is not None:
        rep.unknown(R, ix.site(f), "statement lines are '<op>[(<arguments>)] | <modes>' with positional arguments first", "%s; line templates %s, argument templates %s" % (lang[1], txt, args))
    else:
        rep.check(ok_line, R, ix.site(f), "statement lines are '<op>[(<arguments>)] | <modes>'", "got %s" % txt, key="stmt|line")
        rep.check(ok_args, R, ix.site(f), "arguments are '(<positional>, <keyword>)' with positional arguments first", "got %s" % args, key="stmt|arguments")
    mvals = []
    for n in walk_shallow(fn):
        if isinstance(n, ast.Assign) and u(n.targets[0]) == "modes":
            # a conditional expression is the two-branch assignment written in one statement
            if isinstance(n.value, ast.IfExp) and " ".join(u(n.value.test).split()) in ("len(op['modes']) == 1", "len(op['modes']) != 1"):
                mvals += [n.value.body, n.value.orelse]
            else:
                mvals.append(n.value)
    modes = sorted(str(norm.canon_text(v_)) if norm.canon_text(v_) is not None else " ".join(u(v_).split()) for v_ in mvals)
    okmodes = modes in (["[{', '.join(('{}'.format(m) for m in op['modes']))}]", "op['modes'][0]"], ["[{', '.join((str(m) for m in op['modes']))}]", "op['modes'][0]"],
                        ["[{', '.join((f'{m}' for m in op['modes']))}]", "op['modes'][0]"])
    rep.check(okmodes, R, ix.site(f), "modes are written as a single integer or '[m1, m2, ...]' formatted element by element", "got %s" % modes, key="stmt|modes")
    # final join
    rets = [n for n in walk_shallow(fn) if isinstance(n, ast.Return)]
    rep.check(len(rets) == 1 and " ".join(u(rets[0].value).split()) == "'\\n'.join(script)", R, ix.site(f), "lines are joined with a single LF", key="join")
    # operations in order
    oploop = [n for n in fn.body if isinstance(n, ast.For) and u(n.iter) in ("self.operations", "self._operations")]
    rep.check(len(oploop) == 1, R, ix.site(f), "operations are written in list order", key="op order")


def prune_block(stmts, atom):
    """the statements with every conditional that the model decides replaced by the branch taken"""
    out = []
    for s_ in stmts:
        if isinstance(s_, ast.If):
            try:
                c = bool(AEval(atom).truth(AEval(atom).ev(s_.test)))
            except Exception:
                c = None
            if c is not None:
                out.extend(prune_block(s_.body if c else s_.orelse, atom))
                continue
            s2 = copy.copy(s_)
            s2.body, s2.orelse = prune_block(s_.body, atom), prune_block(s_.orelse, atom)
            out.append(s2)
        elif isinstance(s_, (ast.For, ast.While)):
            s2 = copy.copy(s_)
            s2.body = prune_block(s_.body, atom)
            out.append(s2)
        else:
            out.append(s_)
    return out


def statement_language(ix, M, f):
    """the operation lines as a language, for each of the four models of (positional arguments empty / not, keyword arguments empty / not):
    '<op>' [ '(' <positional> (', ' <positional>)* (', ' <keyword>)* | <keyword> (', ' <keyword>)* ')' ] ' | ' <int> | '[' <int> (', ' <int>)* ']'.
    -> (True, [what was shown]) | (False, witness) | (None, why undecided)"""
    fn = f.node
    L = Lang(M.G)
    oploop = [n for n in fn.body if isinstance(n, ast.For) and u(n.iter) in ("self.operations", "self._operations") and isinstance(n.target, ast.Name)]
    if len(oploop) != 1:
        return None, "loop over the operations not recognised"
    lp = oploop[0]
    op = lp.target.id
    slots = [x for x in find_slots(ix) if x.name in ("positional argument", "keyword argument")]
    if len(slots) != 2 or not all(len(x.collections) == 1 for x in slots):
        return None, "argument collections not recognised"
    pa = [x for x in slots if x.name.startswith("positional")][0].collections[0]
    ka = [x for x in slots if x.name.startswith("keyword")][0].collections[0]
    target = L.of_expr("SH_NAME ( '(' ( SH_PARG (', ' SH_PARG)* (', ' SH_KARG)* | SH_KARG (', ' SH_KARG)* )? ')' )? ' | ' ( SH_INT | '[' SH_INT (', ' SH_INT)* ']' )")
    shown = []
    for pne in (True, False):
        for kne in (True, False):
            def atom(node, pne=pne, kne=kne):
                if isinstance(node, ast.Name) and node.id == pa:
                    return ("x",) if pne else ()
                if isinstance(node, ast.Name) and node.id == ka:
                    return ("x",) if kne else ()
                return AEval.NO
            body = prune_block(list(lp.body), atom)
            apps = [n for s_ in body for n in ast.walk(s_) if isinstance(n, ast.Call) and isinstance(n.func, ast.Attribute) and n.func.attr == "append" and u(n.func.value) == "script" and n.args
                    and "|" in (norm.canon_text(n.args[0]) or u(n.args[0]))]
            if not apps:
                return None, "no statement line is written for %s positional / %s keyword arguments" % ("some" if pne else "no", "some" if kne else "no")
            for a_ in apps:
                roles = {pa: ("texts", "SH_PARG", pne), ka: ("texts", "SH_KARG", kne), "%s['op']" % op: [("hole", "SH_NAME")], '%s["op"]' % op: [("hole", "SH_NAME")],
                         "%s['modes']" % op: ("row", "PyInt"), '%s["modes"]' % op: ("row", "PyInt")}
                try:
                    pieces = TemplateEval(ix, f.mod, fn, roles, scope=body).ev(a_.args[0])
                    w = included(L.of_pieces(pieces), target)
                except Inconclusive as e_:
                    return None, str(e_)
                if w is not None:
                    return False, "with %s positional and %s keyword arguments the line `%s` can read %r" % ("some" if pne else "no", "some" if kne else "no", show_pieces(pieces)[:80], w)
                shown.append(show_pieces(pieces)[:60])
    return True, sorted(set(shown))[:4]


# ------------------------------------------------------------------------------------------------------------ arrays (C01.5 / C09.5)
def arrays(rep, R, ix, M, L):
    G = M.G
    f = ix.func(N2B)
    fn = f.node
    A, vn = f.params[0], f.params[1]
    reb = [n for n in ast.walk(fn) if isinstance(n, (ast.Assign, ast.AugAssign)) and any(isinstance(x, ast.Name) and x.id == A and isinstance(x.ctx, ast.Store) for x in ast.walk(n))]
    rep.check(not reb, R, ix.site(f, reb[0]) if reb else ix.site(f), "numpy_to_blackbird formats the array it is given: the parameter is never replaced by a converted copy "
              "(the declared element type is the array's own dtype)", "`%s`" % (" ".join(u(reb[0]).split())[:70] if reb else ""), key="array|param")
    arms = []
    cur = fn.body
    # which dtype an arm catches is decided on dtype models (kind characters), whatever way the test is spelled:
    # np.issubdtype(A.dtype, np.<class>), A.dtype.kind == 'c', A.dtype.kind in 'iu', a local bound to A.dtype.kind ...
    from ..py.guards import single_assignments
    alias_ = single_assignments(fn)
    SUB = {"complexfloating": "c", "integer": "iu", "signedinteger": "i", "unsignedinteger": "u", "floating": "f", "inexact": "fc", "number": "iufc", "bool_": "b"}

    def dtype_atom(kind_char):
        def atom(node):
            t = " ".join(u(node).split())
            if t == "%s.dtype.kind" % A:
                return kind_char
            if isinstance(node, ast.Name) and node.id in alias_ and " ".join(u(alias_[node.id]).split()) == "%s.dtype.kind" % A:
                return kind_char
            if isinstance(node, ast.Call) and u(node.func).endswith("issubdtype") and len(node.args) == 2 and " ".join(u(node.args[0]).split()) in ("%s.dtype" % A, "%s.dtype.type" % A):
                cls = u(node.args[1]).split(".")[-1]
                if cls in SUB:
                    return kind_char in SUB[cls]
            return AEval.NO
        return atom

    def catches(test):
        got = set()
        for kc in "ciufbOmSU":
            try:
                if AEval(dtype_atom(kc)).truth(AEval(dtype_atom(kc)).ev(test)):
                    got.add(kc)
            except Exception:
                return None
        return got

    def dtype_class(test):
        got = catches(test)
        if got == {"c"}:
            return "np.complexfloating"
        if got is not None and {"i", "u"} <= got <= {"i", "u", "m"}:
            return "np.integer"
        if got == {"f"}:
            return "np.floating"
        return None
    chain = [s for s in fn.body if isinstance(s, ast.If) and dtype_class(s.test) is not None]
    # an up-front guard `if not np.issubdtype(...): raise` is not the dispatch
    guards = [s for s in chain if always_raises(s.body) and not s.orelse]
    chain = [s for s in chain if s not in guards]
    if not chain:
        raise Inconclusive("numpy_to_blackbird: dtype dispatch not recognised")
    # the dispatch is an if/elif ladder, or (guard form) a run of sibling `if`s whose bodies leave the function, or a mix of both
    c = chain[0]
    last_top = c
    els = []
    while True:
        arms.append((c.test, c.body))
        if len(c.orelse) == 1 and isinstance(c.orelse[0], ast.If) and dtype_class(c.orelse[0].test) is not None:
            c = c.orelse[0]
            continue
        if c.orelse:
            els = c.orelse
            break
        nxt = fn.body.index(last_top) + 1 if c is last_top else None
        if nxt is not None and norm._always_leaves(c.body) and nxt < len(fn.body) and fn.body[nxt] in chain:
            c = last_top = fn.body[nxt]
            continue
        if nxt is not None and norm._always_leaves(c.body):
            els = fn.body[nxt:]            # what follows the last guard is the "any other dtype" branch
        break
    if any(x not in [t for t, _ in arms] and x is not None for x in [s_.test for s_ in chain if not any(s_.test is t for t, _ in arms)]):
        raise Inconclusive("numpy_to_blackbird: dtype dispatch not recognised")
    sibling_form = last_top is not chain[0] or (not arms[-1:] or (els and els is not c.orelse))
    want = {"np.complexfloating": ("complex", "F_COMPLEX", "NpComplex"), "np.integer": ("int", "F_INT", "NpInt"), "np.floating": ("float", "F_FLOAT", "NpFloat")}
    seen = set()
    for test, body in arms:
        t = " ".join(u(test).split())
        dc = dtype_class(test)
        if dc is None or dc not in want:
            raise Inconclusive("numpy_to_blackbird: dtype test `%s` not recognised" % t)

        class _M:
            def __init__(self, g):
                self.g = g

            def group(self, i):
                return self.g
        m = _M(dc)
        word, form, kind = want[m.group(1)]
        seen.add(m.group(1))
        hdr = [s for s in body if isinstance(s, ast.Assign) and u(s.targets[0]) == "script"]
        okh = len(hdr) == 1 and isinstance(hdr[0].value, ast.List) and len(hdr[0].value.elts) == 1 and norm.canon_text(hdr[0].value.elts[0]) in (
            "%s array {%s}[{%s.shape[0]}, {%s.shape[1]}] =" % (word, vn, A, A),)
        rep.check(okh, R, ix.site(f, hdr[0]) if hdr else ix.site(f), "%s arrays are declared '%s array <name>[<rows>, <cols>] ='" % (m.group(1), word), "got `%s`" % (u(hdr[0].value) if hdr else None), key="array|header|" + word)
        rows = [s for s in body if isinstance(s, ast.For) and u(s.iter) == A]
        rowexpr = None
        if len(rows) == 1:
            rl = rows[0]
            rs = [s for s in rl.body if isinstance(s, ast.Assign)]
            ap = [x for x in ast.walk(rl) if isinstance(x, ast.Call) and isinstance(x.func, ast.Attribute) and x.func.attr == "append" and u(x.func.value) == "script"]
            if len(rs) == 1 and len(ap) == 1 and isinstance(ap[0].args[0], ast.Name) and u(rs[0].targets[0]) == ap[0].args[0].id:
                rowexpr = rs[0].value
            else:
                rowexpr = ap[0].args[0] if len(ap) == 1 else (rs[0].value if len(rs) == 1 else None)
            rowvar = u(rl.target)
        else:
            ext = [x for s_ in body for x in ast.walk(s_) if isinstance(x, ast.Call) and isinstance(x.func, ast.Attribute) and x.func.attr == "extend" and u(x.func.value) == "script"
                   and x.args and isinstance(x.args[0], (ast.GeneratorExp, ast.ListComp)) and u(x.args[0].generators[0].iter) == A]
            if len(ext) != 1:
                raise Inconclusive("numpy_to_blackbird: row loop not recognised")
            rl = ext[0]
            rowexpr = ext[0].args[0].elt
            rowvar = u(ext[0].args[0].generators[0].target)
        ok_row = False
        elt = None
        # the row as a language: four spaces, then the elements in their form, separated by ', ' - however the text is put together
        try:
            pieces_r = TemplateEval(ix, f.mod, fn, {rowvar: ("row", kind)}, scope=list(rl.body) if isinstance(rl, ast.For) else None).ev(rowexpr)
            w_r = included(L.of_pieces(pieces_r), L.of_expr("'    ' %s (', ' %s)*" % (form, form)))
            rep.check(w_r is None, R, ix.site(f, rl), "each %s row is written `%s`: four spaces (one TAB token) + elements in the form %s separated by ', ', in column order" % (word, show_pieces(pieces_r)[:60], form),
                      "e.g. %r" % w_r, key="array|row|" + word)
            continue
        except Inconclusive:
            pass
        if isinstance(rowexpr, ast.BinOp) and isinstance(rowexpr.left, ast.Constant) and isinstance(rowexpr.right, ast.Call):
            ind = rowexpr.left.value
            j = rowexpr.right
            if isinstance(j.func, ast.Attribute) and j.func.attr == "join" and isinstance(j.func.value, ast.Constant) and j.args and isinstance(j.args[0], (ast.ListComp, ast.GeneratorExp)):
                lc = j.args[0]
                ok_row = ind == "    " and j.func.value.value == ", " and u(lc.generators[0].iter) == rowvar and not lc.generators[0].ifs
                elt = (lc.elt, u(lc.generators[0].target))
        rep.check(ok_row, R, ix.site(f, rl), "each row is written as four spaces (one TAB token) + elements joined by ', ' in column order", key="array|row|" + word)
        if elt:
            try:
                pieces = TemplateEval(ix, f.mod, fn, {elt[1]: ("value", kind)}).ev(elt[0])
                w = included(L.of_pieces(pieces), L.of_rule(form))
                shown = "".join(v if k == "lit" else "<%s>" % v for k, v in pieces)
                rep.check(w is None, R, ix.site(f, rl), "%s elements render as `%s`, included in %s" % (word, shown, form), "e.g. %r" % w, key="array|elem|" + word)
            except Inconclusive as e:
                rep.unknown(R, ix.site(f, rl), "element template of %s arrays" % word, str(e))
    rep.check(seen == set(want), R, ix.site(f), "complex, integer and floating arrays each have a declaration branch", key="array|dtypes")
    rep.check(always_raises(els), R, ix.site(f), "any other dtype raises", key="array|else")
    tail = [] if sibling_form else fn.body[fn.body.index(chain[0]) + 1:]
    def blank_then_return(ss):
        return len(ss) >= 2 and " ".join(u(ss[-2]).split()) == "script.append('')" and " ".join(u(ss[-1]).split()) == "return script"
    # after the dispatch, or (when the continuation was written / normalised into the arms) at the end of every arm
    okt = (len(tail) == 2 and blank_then_return(tail)) or (not tail and all(blank_then_return(body) for _, body in arms))
    rep.check(okt, R, ix.site(f), "a blank line terminates the declaration (the array body ends at the first line that is not an indented row)", key="array|blank")
    # hoisting in serialize
    s = ix.func(SER)
    sn = s.node
    markers = set()
    ops_loops = []
    for slot in [x for x in find_slots(ix) if x.name in ("positional argument", "keyword argument")]:
        for top in sn.body:
            if isinstance(top, ast.For) and any(x is slot.loop for x in ast.walk(top)) and top not in ops_loops:
                ops_loops.append(top)
        arms_, chain_ = isinstance_chain(slot.loop.body, slot.var)
        pa_ = possible_arms(arms_, slot.var, "NdArray")
        for body, which, sure in pa_[:-1]:
            rep.bad(R, ix.site(s, chain_), "%s: every array value gets a hoisted declaration of its own" % slot.name,
                    "under `%s` the array is written some other way (`%s`)" % (which, " ".join(u(body[0]).split())[:60] if body else ""), key="hoist|extra arm|" + slot.name)
        body, which = select_arm(arms_, slot.var, "NdArray")
        txt = [" ".join(u(x).split()) for x in body]
        loc = norm.local_names(sn)
        ref = ("var_name = 'A{}'.format(var_count)\n" +
               ("args.append(var_name)\n" if slot.name.startswith("positional") else "kwargs.append('{}={}'.format(%s, var_name))\n" % slot.key) +
               "var_count += 1\nbb_array = numpy_to_blackbird(%s, var_name)\n" % slot.var +
               "for idx, line in enumerate(bb_array):\n    script.insert(array_insert + idx, line)\narray_insert += len(bb_array)\n")
        ref_loc = {"var_name", "var_count", "bb_array", "idx", "line", "script", "array_insert", "args", "kwargs", slot.var} | ({slot.key} if slot.key else set())
        # canonical form: f-strings and .format spelled alike, local names alpha-renamed
        def canon_block(stmts, locs):
            out = []
            for x in norm.alpha(stmts, locs):
                out.append(x)
            return out
        got_c = canon_block(body, loc)
        want_c = norm.alpha_of_source(ref, ref_loc)

        def append_last(stmts):
            """the statement that writes the name into the argument list may stand anywhere after the name is bound: compare with it moved last"""
            col = "args" if slot.name.startswith("positional") else "kwargs"
            app = [x for x in stmts if isinstance(x, ast.Expr) and isinstance(x.value, ast.Call) and isinstance(x.value.func, ast.Attribute) and x.value.func.attr == "append" and u(x.value.func.value) == col]
            if len(app) != 1 or stmts.index(app[0]) == 0:
                return None
            return [x for x in stmts if x is not app[0]] + app
        b2, r2 = append_last(list(body)), append_last(ast.parse(ref).body)
        moved = b2 is not None and r2 is not None and (norm.alpha(b2, loc) == norm.alpha(r2, ref_loc) or fstring_equal(b2, r2, loc, ref_loc))
        # the declaration may also be spliced in with one slice assignment instead of line-by-line inserts (same lines, same place)
        ref_slice = ref.replace("for idx, line in enumerate(bb_array):\n    script.insert(array_insert + idx, line)\n", "script[array_insert:array_insert] = bb_array\n")
        rs = ast.parse(ref_slice).body
        rs2 = append_last(rs)
        ref_loc_s = ref_loc - {"idx", "line"}
        moved = moved or norm.alpha(list(body), loc) == norm.alpha(rs, ref_loc_s) or fstring_equal(list(body), rs, loc, ref_loc_s) or (
            b2 is not None and rs2 is not None and (norm.alpha(b2, loc) == norm.alpha(rs2, ref_loc_s) or fstring_equal(b2, rs2, loc, ref_loc_s)))
        sem = (None, None, "")
        if txt and (got_c == want_c or fstring_equal(body, ast.parse(ref).body, loc, ref_loc) or moved):
            rep.ok(R, ix.site(s, chain_), "%s: every array value gets its own declaration A<n>, inserted line by line at the insertion point, which then advances by the number of lines" % slot.name)
            markers.add("array_insert")
        elif txt and script_list(sn) and (sem := hoist_semantic(ix, s, slot, list(body), script_list(sn)))[0] is True:
            rep.ok(R, ix.site(s, chain_), "%s: every array value gets its own declaration A<n>, written under that name; the declaration is %s" % (slot.name, sem[2]))
            markers.add(sem[1])
        elif sem[0] is False:
            rep.bad(R, ix.site(s, chain_), "%s: every array value gets its own declaration A<n>, written under that name and placed whole at the insertion point" % slot.name, sem[2], key="hoist|sem|" + slot.name)
        else:
            alltxt = " ".join(txt)
            reuse = "array_equal" in alltxt or "tobytes" in alltxt or "declared" in alltxt or "cache" in alltxt.lower() or " in " in alltxt and "continue" in alltxt
            if reuse:
                exact = ".dtype" in alltxt and ".shape" in alltxt and "tobytes" in alltxt and "array_equal" not in alltxt
                rep.check(exact, R, ix.site(s, chain_), "%s: an array declaration is re-used only for an array of identical dtype, shape and bytes" % slot.name,
                          "declarations are shared between arrays that differ in %s" % ("dtype / sign of zero (np.array_equal compares values)" if "array_equal" in alltxt else
                                                                                       ", ".join(x for x, k in (("dtype", ".dtype"), ("shape", ".shape"), ("exact bytes", "tobytes")) if k not in alltxt)),
                          key="hoist|reuse|" + slot.name)
            else:
                rep.unknown(R, ix.site(s, chain_), "%s: array hoisting follows the recognised shape" % slot.name, "arm body %s" % txt)
    ai = [n for n in sn.body if isinstance(n, ast.Assign) and u(n.targets[0]) == "array_insert"]
    inc = [n for n in ast.walk(sn) if isinstance(n, ast.AugAssign) and u(n.target) == "array_insert"]
    inc_txt = sorted(" ".join(u(n).split()) for n in inc)
    classic = len(ai) == 1 and u(ai[0].value) == "3" and inc_txt == ["array_insert += 1", "array_insert += len(bb_array)", "array_insert += len(bb_array)"]
    inv = (None, "")
    if not classic and len(markers) == 1 and len(ops_loops) == 1 and script_list(sn):
        inv = marker_invariant(sn, ops_loops[0], script_list(sn), next(iter(markers)))
    if classic or inv[0] is True:
        rep.ok(R, ix.site(s), "the insertion point is the end of the header (after 'name', 'version', the metadata lines and the blank line) when the first statement is written, and afterwards moves only "
                              "by the length of each inserted declaration" + ("" if classic else " (%s)" % inv[1]))
    elif inv[0] is None and not classic and len(markers) == 1 and inv[1]:
        rep.unknown(R, ix.site(s), "the insertion point is the end of the header when the first statement is written", inv[1])
    else:
        rep.bad(R, ix.site(s), "the insertion point starts after 'name', 'version' and the blank line (3) and moves only by one per metadata line and by the length of each inserted declaration",
                inv[1] or "got %s" % inc_txt, key="hoist|index")
    # the counter the names are numbered by (the code's own name: var_count, or the field of a collector object)
    cnts = set()
    for n in ast.walk(sn):
        if isinstance(n, ast.Assign) and len(n.targets) == 1 and isinstance(n.targets[0], ast.Name):
            m_ = re.fullmatch(r"A\{(\w+)\}", norm.canon_text(n.value) or "")
            if m_:
                cnts.add(m_.group(1))
    cnt = cnts.pop() if len(cnts) == 1 else "var_count"
    vc = [n for n in sn.body if isinstance(n, ast.Assign) and u(n.targets[0]) == cnt]
    rep.check(len(vc) == 1 and u(vc[0].value) == "0", R, ix.site(s), "declaration names are numbered from 0", key="hoist|count")


# ------------------------------------------------------------------------------------------------------------ layout of the hoisted declarations
def script_list(sn):
    """name of the list of lines the function joins and returns"""
    for n in ast.walk(sn):
        if isinstance(n, ast.Return) and isinstance(n.value, ast.Call) and isinstance(n.value.func, ast.Attribute) and n.value.func.attr == "join" and n.value.args and isinstance(n.value.args[0], ast.Name):
            return n.value.args[0].id
    return None


def marker_invariant(sn, ops_loop, script, M):
    """the insertion point M of the hoisted declarations is the end of the header: decided on d = M - len(script), followed through the top-level
    statements in front of the loop over the operations (every path through a loop body / conditional must change d by the same amount).
    -> (True, explanation) | (False, why) | (None, why not decided)"""
    def delta(stmts):
        """set of possible changes of d on the paths through stmts; None = not expressible; a path ends at continue/break/return/raise"""
        acc = {0}
        for s_ in stmts:
            if isinstance(s_, (ast.Continue, ast.Break, ast.Return, ast.Raise)):
                return acc
            ds = step(s_)
            if ds is None:
                return None
            acc = {a + b for a in acc for b in ds}
        return acc

    def step(s_):
        txt = " ".join(u(s_).split())
        if isinstance(s_, ast.Expr) and isinstance(s_.value, ast.Call) and isinstance(s_.value.func, ast.Attribute) and u(s_.value.func.value) == script:
            a = s_.value.func.attr
            if a == "append":
                return {-1}
            if a == "extend" and s_.value.args and isinstance(s_.value.args[0], (ast.List, ast.Tuple)):
                return {-len(s_.value.args[0].elts)}
            return None
        if isinstance(s_, ast.AugAssign) and u(s_.target) == M:
            if isinstance(s_.op, ast.Add) and isinstance(s_.value, ast.Constant) and isinstance(s_.value.value, int):
                return {s_.value.value}
            return None
        if isinstance(s_, ast.Assign) and any(M in [x.id for x in ast.walk(t_) if isinstance(x, ast.Name)] or script in [x.id for x in ast.walk(t_) if isinstance(x, ast.Name)] for t_ in s_.targets):
            return None
        if isinstance(s_, ast.If):
            a, b = delta(s_.body), delta(s_.orelse)
            return None if a is None or b is None else a | b
        if isinstance(s_, (ast.For, ast.While)):
            d_ = delta(s_.body)
            return {0} if d_ == {0} else None
        if isinstance(s_, ast.Try):
            return None
        # anything else must not touch the script or the marker
        for x in ast.walk(s_):
            if isinstance(x, ast.Name) and x.id in (script, M) and isinstance(x.ctx, (ast.Store, ast.Del)):
                return None
            if isinstance(x, ast.Call) and isinstance(x.func, ast.Attribute) and u(x.func.value) == script and x.func.attr in ("append", "extend", "insert", "pop", "remove", "clear", "sort", "reverse"):
                return None
        return {0}

    if ops_loop not in sn.body:
        return None, "the loop over the operations is not a top-level statement"
    pre = sn.body[:sn.body.index(ops_loop)]
    d = None          # unknown
    known_len, known_m = None, None
    trace = []
    varies = None
    for s_ in pre:
        touched_m = any(isinstance(x, ast.Name) and x.id == M and isinstance(x.ctx, (ast.Store, ast.Del)) for x in ast.walk(s_))
        if isinstance(s_, ast.Assign) and len(s_.targets) == 1 and isinstance(s_.targets[0], ast.Name) and s_.targets[0].id in (script, M):
            t_, v_ = s_.targets[0].id, s_.value
            if t_ == script and isinstance(v_, (ast.List, ast.Tuple)) and not any(isinstance(e_, ast.Starred) for e_ in v_.elts):
                known_len = len(v_.elts)
            elif t_ == M and isinstance(v_, ast.Constant) and isinstance(v_.value, int):
                known_m = v_.value
            elif t_ == M and " ".join(u(v_).split()) == "len(%s)" % script:
                known_m = known_len = None
                d = 0
                varies = None
                trace.append((d, touched_m))
                continue
            else:
                known_m = known_len = None
                d = None
                trace.append((d, touched_m))
                continue
            d = known_m - known_len if (known_m is not None and known_len is not None) else None
            trace.append((d, touched_m))
            continue
        ds = step(s_)
        if isinstance(s_, (ast.For, ast.While)):
            inner = delta(s_.body)
            if inner is not None and inner != {0}:
                # some path through the loop body moves the end of the script and the insertion point by different amounts
                varies = "in `%s` the script and `%s` move apart by %s per iteration, depending on the path taken" % (" ".join(u(s_).split())[:40], M, sorted(inner))
        if ds is None or len(ds) != 1:
            d = None
        elif d is not None:
            d += next(iter(ds))
        trace.append((d, touched_m))
    # the header ends at the first point where M is the end of the script and M is not touched again before the operations
    for i, (d_i, _) in enumerate(trace):
        if d_i == 0 and not any(t for _, t in trace[i + 1:]):
            return True, "`%s` equals len(%s) after `%s`, and is not changed again before the loop over the operations" % (M, script, " ".join(u(pre[i]).split())[:50])
    if varies:
        return False, varies
    final = trace[-1][0] if trace else None
    if final is not None and final != 0 and not any(d_i is None for d_i, _ in trace[max(0, len(trace) - 1):]):
        return False, "`%s` is %d line%s %s the end of the header when the first statement line is written" % (M, abs(final), "" if abs(final) == 1 else "s", "past" if final > 0 else "before")
    return None, "the distance between `%s` and the end of `%s` is not a constant where the operations begin" % (M, script)


def hoist_semantic(ix, s, slot, body, script):
    """the array arm, read for what it does: a fresh name A<counter> (counter advanced once per array), that very name written as the argument,
    the declaration numpy_to_blackbird(<value>, <name>) put - whole and in order - at the insertion point or collected for one later splice.
    -> (True, marker name, how) | (None/False, None, why)"""
    sn = s.node
    calls = [c for x in body for c in ast.walk(x) if isinstance(c, ast.Call) and u(c.func).endswith("numpy_to_blackbird")]
    if len(calls) != 1 or len(calls[0].args) != 2 or calls[0].keywords:
        return None, None, "no single numpy_to_blackbird(<array>, <name>) call in the arm"
    call = calls[0]
    if u(call.args[0]) != slot.var:
        return False, None, "the declaration is built from `%s`, not from the argument value `%s`" % (u(call.args[0]), slot.var)
    if not isinstance(call.args[1], ast.Name):
        return None, None, "declaration name is not a local"
    N = call.args[1].id
    binds = [x for x in body if isinstance(x, ast.Assign) and len(x.targets) == 1 and isinstance(x.targets[0], ast.Name) and x.targets[0].id == N]
    if len(binds) != 1:
        return None, None, "`%s` is not bound exactly once in the arm" % N
    m = re.fullmatch(r"A\{(\w+)\}", norm.canon_text(binds[0].value) or "")
    if not m:
        return False, None, "the declaration name is `%s`, not 'A<counter>'" % " ".join(u(binds[0].value).split())[:40]
    cnt = m.group(1)
    incs = [x for x in ast.walk(sn) if isinstance(x, ast.AugAssign) and u(x.target) == cnt]
    mine = [x for x in incs if any(x is y for b_ in body for y in ast.walk(b_))]
    if len(mine) != 1 or " ".join(u(mine[0]).split()) != "%s += 1" % cnt or mine[0] not in body:
        return False, None, "the counter `%s` is not advanced exactly once, by one, for this array" % cnt
    others = [x for x in ast.walk(sn) if isinstance(x, ast.Assign) and any(isinstance(t_, ast.Name) and t_.id == cnt for t_ in x.targets)]
    if len(others) != 1 or others[0] not in sn.body or not isinstance(others[0].value, ast.Constant):
        return None, None, "counter initialisation not recognised"
    # the name written into the argument list is this very name
    col = slot.collections[0] if slot.collections else None
    apps = [c for x in body for c in ast.walk(x) if isinstance(c, ast.Call) and isinstance(c.func, ast.Attribute) and c.func.attr == "append" and u(c.func.value) == col]
    if len(apps) != 1 or len(apps[0].args) != 1:
        return None, None, "the argument text is not appended exactly once"
    a0 = apps[0].args[0]
    if slot.key:
        okn = (norm.canon_text(a0) or "") == "{%s}={%s}" % (slot.key, N)
    else:
        okn = isinstance(a0, ast.Name) and a0.id == N
    if not okn:
        return False, None, "the argument is written as `%s`, not as the declared name `%s`" % (" ".join(u(a0).split())[:40], N)
    if not (pos(binds[0]) < pos(stmt_in(body, apps[0])) and pos(binds[0]) < pos(stmt_in(body, call))):
        return False, None, "`%s` is used before it is bound" % N
    # where the declaration lines go
    holder = None
    st_call = stmt_in(body, call)
    if isinstance(st_call, ast.Assign) and st_call.value is call and len(st_call.targets) == 1 and isinstance(st_call.targets[0], ast.Name):
        holder = st_call.targets[0].id
    after = body[body.index(st_call) + (1 if holder else 0):]

    def is_block(e):
        return (holder is not None and isinstance(e, ast.Name) and e.id == holder) or e is call

    for x in after:
        # (a) for i, line in enumerate(B): script.insert(M + i, line)   followed by   M += len(B)
        if isinstance(x, ast.For) and isinstance(x.iter, ast.Call) and u(x.iter.func) == "enumerate" and len(x.iter.args) == 1 and is_block(x.iter.args[0]) \
                and isinstance(x.target, ast.Tuple) and len(x.target.elts) == 2 and len(x.body) == 1:
            i_, l_ = u(x.target.elts[0]), u(x.target.elts[1])
            t_ = " ".join(u(x.body[0]).split())
            mm = re.fullmatch(r"%s\.insert\((\w+) \+ %s, %s\)" % (re.escape(script), re.escape(i_), re.escape(l_)), t_) or re.fullmatch(r"%s\.insert\(%s \+ (\w+), %s\)" % (re.escape(script), re.escape(i_), re.escape(l_)), t_)
            if mm and holder:
                M = mm.group(1)
                adv = [y for y in after[after.index(x) + 1:] if isinstance(y, ast.AugAssign) and u(y.target) == M]
                if len(adv) == 1 and " ".join(u(adv[0]).split()) == "%s += len(%s)" % (M, holder):
                    return True, M, "inserted line by line at `%s`, which then advances by the number of lines" % M
                return False, None, "after the lines were inserted at `%s` the insertion point is not advanced by their number" % M
        # (a') for pos, line in enumerate(B, start=M): script.insert(pos, line)   followed by   M += len(B)
        if isinstance(x, ast.For) and isinstance(x.iter, ast.Call) and u(x.iter.func) == "enumerate" and len(x.iter.args) in (1, 2) and is_block(x.iter.args[0]) and holder \
                and isinstance(x.target, ast.Tuple) and len(x.target.elts) == 2 and len(x.body) == 1:
            start = x.iter.args[1] if len(x.iter.args) == 2 else next((k.value for k in x.iter.keywords if k.arg == "start"), None)
            i_, l_ = u(x.target.elts[0]), u(x.target.elts[1])
            if isinstance(start, ast.Name) and " ".join(u(x.body[0]).split()) == "%s.insert(%s, %s)" % (script, i_, l_):
                M = start.id
                adv = [y for y in after[after.index(x) + 1:] if isinstance(y, ast.AugAssign) and u(y.target) == M]
                if len(adv) == 1 and " ".join(u(adv[0]).split()) == "%s += len(%s)" % (M, holder):
                    return True, M, "inserted line by line from `%s` on, which then advances by the number of lines" % M
                return False, None, "after the lines were inserted at `%s` the insertion point is not advanced by their number" % M
        # (b) script[M:M] = B   followed by   M += len(B)
        if isinstance(x, ast.Assign) and len(x.targets) == 1 and isinstance(x.targets[0], ast.Subscript) and u(x.targets[0].value) == script and isinstance(x.targets[0].slice, ast.Slice) \
                and is_block(x.value) and holder:
            sl = x.targets[0].slice
            if isinstance(sl.lower, ast.Name) and isinstance(sl.upper, ast.Name) and sl.lower.id == sl.upper.id and sl.step is None:
                M = sl.lower.id
                adv = [y for y in after[after.index(x) + 1:] if isinstance(y, ast.AugAssign) and u(y.target) == M]
                if len(adv) == 1 and " ".join(u(adv[0]).split()) == "%s += len(%s)" % (M, holder):
                    return True, M, "spliced in at `%s`, which then advances by the number of lines" % M
                return False, None, "after the splice at `%s` the insertion point is not advanced by the number of lines" % M
        # (c) ACC.extend(B): collected, and spliced into the script once after the loop over the operations
        if isinstance(x, ast.Expr) and isinstance(x.value, ast.Call) and isinstance(x.value.func, ast.Attribute) and x.value.func.attr == "extend" and isinstance(x.value.func.value, ast.Name) \
                and len(x.value.args) == 1 and is_block(x.value.args[0]):
            acc = x.value.func.value.id
            init = [y for y in sn.body if isinstance(y, ast.Assign) and len(y.targets) == 1 and isinstance(y.targets[0], ast.Name) and y.targets[0].id == acc]
            splice = [y for y in sn.body if isinstance(y, ast.Assign) and len(y.targets) == 1 and isinstance(y.targets[0], ast.Subscript) and u(y.targets[0].value) == script
                      and isinstance(y.targets[0].slice, ast.Slice) and isinstance(y.value, ast.Name) and y.value.id == acc]
            if len(init) == 1 and isinstance(init[0].value, ast.List) and not init[0].value.elts and len(splice) == 1:
                sl = splice[0].targets[0].slice
                other_uses = [y for y in ast.walk(sn) if isinstance(y, ast.Name) and y.id == acc and isinstance(y.ctx, ast.Load)]
                extends = [y for y in ast.walk(sn) if isinstance(y, ast.Call) and isinstance(y.func, ast.Attribute) and isinstance(y.func.value, ast.Name) and y.func.value.id == acc]
                if isinstance(sl.lower, ast.Name) and isinstance(sl.upper, ast.Name) and sl.lower.id == sl.upper.id and sl.step is None and pos(init[0]) < pos(slot.loop) < pos(splice[0]) \
                        and all(e_.func.attr == "extend" for e_ in extends) and len(other_uses) == len(extends) + 1:
                    M = sl.lower.id
                    if any(isinstance(y, ast.AugAssign) and u(y.target) == M and pos(y) > pos(slot.loop) for y in ast.walk(sn)):
                        return None, None, "insertion point modified after the operations"
                    return True, M, "collected in `%s` in order of appearance and spliced in once at `%s`" % (acc, M)
    return None, None, "the lines of the declaration do not reach the script in a recognised way"


def stmt_in(body, node):
    for x in body:
        if any(y is node for y in ast.walk(x)):
            return x
    return body[0]


# ------------------------------------------------------------------------------------------------------------ C15.4 tdm variables
def c15_4(rep, ix, M):
    R = "C15.4"
    rep.rule(R, "for tdm programs serialize writes every variable; each declaration is in the language of the declaration it is (scalar: '<type> <name> = <value>', array: '<type> array <name> =' + indented rows)",
             floor=6)
    L = Lang(M.G)
    f = ix.func(SER)
    fn = f.node
    from .c07 import resolve
    sec = [n for n in fn.body if isinstance(n, ast.If) and " ".join(u(resolve(fn, n.test)).split()) in ("self.programtype['name'] == 'tdm'", "self._type['name'] == 'tdm'")]
    if len(sec) != 1:
        raise Inconclusive("serialize: tdm variable section not recognised")
    loops = [n for n in ast.walk(sec[0]) if isinstance(n, ast.For) and u(n.iter) in ("self._var.items()", "self.variables.items()")]
    if len(loops) != 1:
        # the declarations may be written from a local list of (name, value) pairs: every pair must be a pair of the variable table itself
        # (selected or reordered, but under the stored name)
        cands = [n for n in ast.walk(sec[0]) if isinstance(n, ast.For) and isinstance(n.iter, ast.Name) and isinstance(n.target, ast.Tuple) and len(n.target.elts) == 2
                 and any(isinstance(c, ast.Call) and u(c.func) == "script.append" for c in ast.walk(n))]
        if len(cands) == 1:
            L_ = cands[0].iter.id
            contrib = [n for n in ast.walk(sec[0]) if (isinstance(n, ast.Assign) and any(isinstance(t_, ast.Name) and t_.id == L_ for t_ in n.targets))
                       or (isinstance(n, ast.AugAssign) and isinstance(n.target, ast.Name) and n.target.id == L_)]
            undecided = False
            for c_ in contrib:
                v_ = c_.value
                while isinstance(v_, ast.Call) and u(v_.func) in ("list", "sorted", "tuple") and v_.args:
                    v_ = v_.args[0]
                if u(v_) in ("self._var.items()", "self.variables.items()"):
                    continue
                if isinstance(v_, (ast.ListComp, ast.GeneratorExp)) and isinstance(v_.elt, ast.Tuple) and len(v_.elt.elts) == 2:
                    g_ = v_.generators[0]
                    from_table = u(g_.iter) in ("self._var.items()", "self.variables.items()") and isinstance(g_.target, ast.Tuple) and len(g_.target.elts) == 2
                    key_e = v_.elt.elts[0]
                    if from_table and isinstance(key_e, ast.Name) and key_e.id == u(g_.target.elts[0]) and len(v_.generators) == 1:
                        continue
                    if not (isinstance(key_e, ast.Name)):
                        rep.bad(R, ix.site(f, c_), "every variable of a tdm program is declared under the name it is stored under",
                                "`%s`: the declared name is computed (`%s`), not the stored name - two spellings of one number (p1 / p01) collapse and the operations still refer to the stored name"
                                % (" ".join(u(c_).split())[:60], " ".join(u(key_e).split())[:40]), key="tdm|name|" + " ".join(u(key_e).split())[:40])
                        continue
                undecided = True
            refuted = any(o.rule == R and o.status == "refuted" and str(o.key).startswith("tdm|name|") for o in rep.obs)
            if contrib and not undecided and refuted:
                return
            if contrib and not undecided:
                loops = [cands[0]]
        if len(loops) != 1:
            raise Inconclusive("serialize: loop over the variables not recognised")
    lp = loops[0]
    k, v = u(lp.target.elts[0]), u(lp.target.elts[1])
    tdm_dispatch(rep, R, ix, f, lp, v)
    arms, chain = isinstance_chain(lp.body, v)
    if arms is None:
        raise Inconclusive("serialize: dispatch over the variable value not recognised")
    def prune(stmts, binding):
        """the statements with every conditional that the binding decides replaced by the branch taken"""
        def atom(node):
            if isinstance(node, ast.Name) and node.id in binding:
                return binding[node.id]
            return AEval.NO
        out = []
        for s_ in stmts:
            if isinstance(s_, ast.If):
                try:
                    c = bool(AEval(atom).truth(AEval(atom).ev(s_.test)))
                except Exception:
                    c = None
                if c is not None:
                    out.extend(prune(s_.body if c else s_.orelse, binding))
                    continue
                s2 = copy.copy(s_)
                s2.body, s2.orelse = prune(s_.body, binding), prune(s_.orelse, binding)
                out.append(s2)
            elif isinstance(s_, (ast.For, ast.While)):
                s2 = copy.copy(s_)
                s2.body = prune(s_.body, binding)
                out.append(s2)
            else:
                out.append(s_)
        return out

    for kind in ("PyStr", "PyFloat", "PyInt", "PyComplex", "PyBool", "NdArray"):
        body, which = select_arm(arms, v, kind)
        if kind == "NdArray":
            # the declaration as a language, per element type (a conditional on the type word is decided by the word)
            done = 0
            for ek, form, word in (("NpInt", "F_INT", "int"), ("NpFloat", "F_FLOAT", "float"), ("NpComplex", "F_COMPLEX", "complex")):
                body_w = prune(list(body), {"var_type": word})
                apps_w = [n for s_ in body_w for n in ast.walk(s_) if isinstance(n, ast.Call) and isinstance(n.func, ast.Attribute) and n.func.attr == "append" and u(n.func.value) == "script"]
                if len(apps_w) != 1:
                    break
                try:
                    roles_a = {k: ("key",), "var_type": [("lit", word)], v: ("array", ek)}
                    roles_a.update(local_callables(body_w, {"var_type": word}))
                    scope_w = prune(list(lp.body), {"var_type": word})
                    pieces = TemplateEval(ix, f.mod, fn, roles_a, scope=scope_w).ev(apps_w[0].args[0])
                except Inconclusive:
                    break
                target = L.of_expr("'%s array ' SH_NAME ' =' ( '\\n    ' %s ( ', ' %s )* )+" % (word, form, form))
                w = included(L.of_pieces(pieces), target)
                rep.check(w is None, R, ix.site(f, apps_w[0]), "a %s array variable is written `%s`: header '%s array <name> =' and rows of four spaces + elements separated by ', '" % (ek, show_pieces(pieces)[:90], word),
                          "e.g. %r is not an array declaration" % w, key="tdm|array|" + ek)
                done += 1
            if done == 3:
                continue
        apps = [n for s in body for n in ast.walk(s) if isinstance(n, ast.Call) and isinstance(n.func, ast.Attribute) and n.func.attr == "append" and u(n.func.value) == "script"]
        if len(apps) != 1:
            rep.unknown(R, ix.site(f, chain), "tdm variable of kind %s is written by exactly one script.append" % kind, "found %d" % len(apps))
            continue
        expr = apps[0].args[0]
        roles = {k: ("key",), "var_type": [("hole", "SH_NAME")]}
        if kind != "NdArray":
            roles[v] = ("value", kind)
            try:
                pieces = TemplateEval(ix, f.mod, fn, roles).ev(expr)
            except Inconclusive as e:
                rep.unknown(R, ix.site(f, apps[0]), "template of a %s tdm variable" % kind, str(e))
                continue
            form = READ_FORM[kind][0]
            target = L.of_expr("SH_NAME ' ' SH_NAME ' = ' %s" % form)
            w = included(L.of_pieces(pieces), target)
            shown = "".join(x if t == "lit" else "<%s>" % x for t, x in pieces)
            rep.check(w is None, R, ix.site(f, apps[0]), "a %s variable is written `%s`, a scalar declaration '<type> <name> = <%s>'" % (kind, shown, form[2:]),
                      "e.g. %r is not a scalar declaration of that type" % w, key="tdm|" + kind)
        else:
            # header + rows: '<type> array <name> =' followed by the text of the rows (accumulated in a local by a loop, or joined in place)
            txt = " ".join(u(expr).split())
            parts = norm.fmt_parts(expr) or []
            shape_ok = len(parts) == 5 and [p_[0] for p_ in parts] == ["expr", "lit", "expr", "lit", "expr"] and u(parts[0][1]) == "var_type" and parts[1][1] == " array " \
                and u(parts[2][1]) == k and parts[3][1] == " ="
            rows_e = parts[4][1] if shape_ok else None
            row_expr, row_var, rows = None, None, []
            if isinstance(rows_e, ast.Name):
                rows = [s for s in ast.walk(ast.Module(body=list(body), type_ignores=[])) if isinstance(s, ast.For) and u(s.iter) == v]
                if len(rows) == 1 and len(rows[0].body) == 1 and isinstance(rows[0].body[0], ast.AugAssign) and isinstance(rows[0].body[0].op, ast.Add) and u(rows[0].body[0].target) == rows_e.id:
                    inits = [s for s in ast.walk(ast.Module(body=list(lp.body), type_ignores=[])) if isinstance(s, ast.Assign) and u(s.targets[0]) == rows_e.id]
                    if len(inits) == 1 and isinstance(inits[0].value, ast.Constant) and inits[0].value.value == "":
                        row_expr, row_var = rows[0].body[0].value, u(rows[0].target)
            elif isinstance(rows_e, ast.Call) and isinstance(rows_e.func, ast.Attribute) and rows_e.func.attr == "join" and isinstance(rows_e.func.value, ast.Constant) and rows_e.func.value.value == "" \
                    and len(rows_e.args) == 1 and isinstance(rows_e.args[0], (ast.GeneratorExp, ast.ListComp)) and len(rows_e.args[0].generators) == 1 and u(rows_e.args[0].generators[0].iter) == v \
                    and not rows_e.args[0].generators[0].ifs:
                row_expr, row_var = rows_e.args[0].elt, u(rows_e.args[0].generators[0].target)
                rows = [rows_e]
            okh = shape_ok and row_expr is not None
            rep.check(okh, R, ix.site(f, apps[0]), "an array variable is written '<type> array <name> =' followed by its rows", "got `%s`" % txt, key="tdm|array header")
            okr = False
            elem_expr = None
            if row_expr is not None and isinstance(row_expr, ast.BinOp) and isinstance(row_expr.op, ast.Add) and isinstance(row_expr.left, ast.Constant) and row_expr.left.value == "\n    ":
                # one row: newline + four spaces + the elements separated by ', '
                r_ = row_expr.right
                sliced = False
                if isinstance(r_, ast.Subscript) and " ".join(u(r_.slice).split()) == ":-2":
                    r_, sliced = r_.value, True
                if isinstance(r_, ast.Call) and isinstance(r_.func, ast.Attribute) and r_.func.attr == "join" and isinstance(r_.func.value, ast.Constant) and len(r_.args) == 1 \
                        and isinstance(r_.args[0], (ast.GeneratorExp, ast.ListComp)) and len(r_.args[0].generators) == 1 and u(r_.args[0].generators[0].iter) == row_var and not r_.args[0].generators[0].ifs:
                    sep = r_.func.value.value
                    g_ = r_.args[0]
                    elem_expr = (g_.elt, u(g_.generators[0].target))
                    etxt = norm.canon_text(g_.elt) or ""
                    trailing = etxt.endswith(", ")
                    okr = (sep == ", " and not sliced and not trailing) or (sep == "" and sliced and trailing)
            if True:
                if True:
                    pass
                if elem_expr is not None:
                    for ek, form, word in (("NpInt", "F_INT", "int"), ("NpFloat", "F_FLOAT", "float"), ("NpComplex", "F_COMPLEX", "complex")):
                        try:
                            roles2 = {elem_expr[1]: ("value", ek)}
                            roles2.update(local_callables(body, {"var_type": word}))
                            pieces = TemplateEval(ix, f.mod, fn, roles2).ev(elem_expr[0])
                        except Inconclusive as e:
                            rep.unknown(R, ix.site(f, rows[0]), "element template of tdm arrays", str(e))
                            continue
                        tail = [p for p in pieces]
                        if tail and tail[-1] == ("lit", ", "):
                            tail = tail[:-1]
                        w = included(L.of_pieces(tail), L.of_rule(form))
                        shown = "".join(x if t == "lit" else "<%s>" % x for t, x in tail)
                        rep.check(w is None, R, ix.site(f, rows[0]), "%s elements of a tdm array render as `%s`, included in %s" % (ek, shown, form), "e.g. %r" % w, key="tdm|elem|" + ek)
            rep.check(okr, R, ix.site(f, apps[0]), "each row starts on a new line with four spaces and separates elements by ', '", key="tdm|rows")


def tdm_dispatch(rep, R, ix, f, lp, v):
    """which kind of declaration is written for which kind of variable value, decided by reachability of the writing statements on a
    finite model of values: Python scalars, a 2x3 array and a 1x1 array (an array is an array whatever its size)"""
    from ..py.guards import single_assignments
    fake = ast.FunctionDef(name="_", args=ast.arguments(posonlyargs=[], args=[], kwonlyargs=[], kw_defaults=[], defaults=[]), body=lp.body, decorator_list=[])
    alias = single_assignments(fake)
    writes = []
    for s_ in ast.walk(fake):
        if isinstance(s_, (ast.Expr, ast.AugAssign)):
            for c in ast.walk(s_):
                if isinstance(c, ast.Call) and isinstance(c.func, ast.Attribute) and c.func.attr in ("append", "extend") and isinstance(c.func.value, ast.Name) and c.args:
                    t = norm.canon_text(c.args[0]) or " ".join(u(c.args[0]).split())
                    writes.append((s_, "array" if " array " in t else ("scalar" if " = " in t else None)))
    writes = [(s_, w) for s_, w in writes if w]
    if not any(w == "array" for _, w in writes) or not any(w == "scalar" for _, w in writes):
        return                                  # forms not recognisable here: left to the template checks below
    models = [(n_, XK[n_].with_attrs(size=1, ndim=0, shape=())) for n_ in ("PyStr", "PyFloat", "PyInt", "PyComplex", "PyBool")]
    models += [("a 2x3 array", XK["NdArray"].with_attrs(size=6, ndim=2, shape=(2, 3))), ("a 1x1 array", XK["NdArray"].with_attrs(size=1, ndim=2, shape=(1, 1)))]
    for name, model in models:
        def atom(node, model=model, depth=[0]):
            if isinstance(node, ast.Name) and node.id == v:
                return model
            if isinstance(node, ast.Call) and u(node.func) in ("np.asarray", "np.array", "np.asanyarray", "numpy.asarray") and len(node.args) == 1 and not node.keywords:
                return AEval(atom).ev(node.args[0])          # the array form of the value has the attributes of the model
            if isinstance(node, ast.Call) and u(node.func) in ("np.ndim", "np.size", "np.shape") and len(node.args) == 1:
                x = AEval(atom).ev(node.args[0])
                return x.extra.get(u(node.func)[3:]) if isinstance(x, Kind) else AEval.NO
            if isinstance(node, ast.Name) and node.id in alias and node.id != v and depth[0] < 4:
                depth[0] += 1
                try:
                    return AEval(atom).ev(alias[node.id])
                finally:
                    depth[0] -= 1
            return AEval.NO
        want = "array" if "array" in name else "scalar"
        reach = {w for s_, w in writes if Reach(fake, s_, aliases=False).may_reach(atom)}
        rep.check(reach == {want}, R, ix.site(f, lp), "a tdm variable holding %s is written as %s declaration" % (name if "array" in name else "a %s scalar" % name, "an array" if want == "array" else "a scalar"),
                  "the statements reachable for it write: %s" % sorted(reach), key="tdm|dispatch|" + name)


def local_callables(stmts, binding):
    """names bound to a lambda / bound str.format inside `stmts`, selecting among conditional bindings with `binding` (name -> value)"""
    out = {}

    def atom(node):
        if isinstance(node, ast.Name) and node.id in binding:
            return binding[node.id]
        return AEval.NO

    def scan(block):
        for s in block:
            if isinstance(s, ast.Assign) and len(s.targets) == 1 and isinstance(s.targets[0], ast.Name) and (
                    isinstance(s.value, ast.Lambda) or (isinstance(s.value, ast.Attribute) and s.value.attr == "format")):
                out[s.targets[0].id] = ("callable", s.value)
            elif isinstance(s, ast.If):
                try:
                    c = AEval(atom).truth(AEval(atom).ev(s.test))
                except Exception:
                    c = None
                if c is None:
                    scan(s.body)
                    scan(s.orelse)
                else:
                    scan(s.body if c else s.orelse)
            elif isinstance(s, (ast.For, ast.While)):
                scan(s.body)
    scan(stmts)
    return out


def local_aliases(stmts, roles):
    """single-assignment locals inside an arm (e.g. sign = "+-"[int(v.imag < 0)]) usable inside the template"""
    out = {}
    for s_ in stmts:
        for n in ast.walk(s_):
            if isinstance(n, ast.Assign) and len(n.targets) == 1 and isinstance(n.targets[0], ast.Name) and n.targets[0].id not in roles:
                out[n.targets[0].id] = ("alias", n.value)
    return out


def fstring_equal(a_stmts, b_stmts, a_loc, b_loc):
    """statement lists equal after alpha-renaming locals and rewriting every string-building expression into canonical template text"""
    class F(ast.NodeTransformer):
        def generic_visit(self, node):
            node = super().generic_visit(node)
            if isinstance(node, (ast.JoinedStr, ast.Call, ast.BinOp)):
                t = norm.canon_text(node)
                if t is not None and ("{" in t or isinstance(node, ast.JoinedStr)):
                    return ast.copy_location(ast.Constant(value="TEMPLATE:" + t), node)
            return node
    import copy as _c
    a = [F().visit(_c.deepcopy(x)) for x in a_stmts]
    b = [F().visit(_c.deepcopy(x)) for x in b_stmts]
    # canonical template text contains local names too: rename inside by applying alpha on a parsed form is not possible, so compare with names erased
    import re as _re

    def erase(txts, locs):
        out = []
        for t in txts:
            for i, nm in enumerate(sorted(locs, key=len, reverse=True)):
                t = _re.sub(r"\b%s\b" % _re.escape(nm), "L", t)
            out.append(t)
        return out
    return erase([" ".join(u(x).split()) for x in a], a_loc) == erase([" ".join(u(x).split()) for x in b], b_loc)
