def c15_4(rep, ix, M):
    rep.note("C15.4 (serialiser templates) is decided by the T engine, added next")
