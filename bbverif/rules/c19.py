"""C19 - loading and serialising are deterministic across runs and hash seeds (ORD, DESIGN 5/C19)."""
import ast

from ..report import Inconclusive
from ..py.index import Index, u
from ..py.ordflow import Ord, INT_HINTS
from . import common

CONTROL = {"m": '''
def bad(e):
    res = str(e)
    for p in e.free_symbols:
        res = res.replace(str(p), "{" + str(p) + "}")
    return res
def bad2(e, f):
    names = [str(p) for p in e.free_symbols]
    return "|".join(names)
def good(e):
    return "|".join(sorted(str(p) for p in e.free_symbols))
'''}
PAIR_CLASS = "listener.RegRefTransform"


def get_ord(rep):
    if "ord" not in common._cache:
        o = Ord(common.index(rep))
        o.solve()
        common._cache["ord"] = o
    return common._cache["ord"]


def run(rep, tier):
    rep.trust(*common.PY_TRUST)
    rep.trust("SymPy's str() printer orders terms canonically; dict iteration order is insertion order; iteration order of sets of small ints does not depend on PYTHONHASHSEED",
              "element-class table: " + "; ".join("%s -> int (%s)" % kv for kv in sorted(INT_HINTS.items())) + "; every other unordered source is treated as string-hashed")
    O = get_ord(rep)
    ix = O.ix
    control(rep)
    c19_1(rep, O, ix)
    pairing(rep, O, ix, "C19.2")
    # "identical in every run": nothing of an earlier load in the same process may answer for a later one (inventory shared with C12)
    from . import c12
    common.guarded(rep, "C12.1", c12.inventory, rep, common.eff(rep), ix)


def control(rep):
    rep.rule("C19.0", "positive control: the unordered-flow analysis reports the sequential-replace loop and the unsorted join of an embedded example and is silent on the sorted twin", floor=3)
    o = Ord(Index(sources=CONTROL))
    o.solve()
    rep.check(any("loop-carried" in f.sink for f in o.findings["m.bad"]), "C19.0", "embedded bad()", "loop-carried replace over free_symbols is reported")
    rep.check(any("join" in f.sink for f in o.findings["m.bad2"]), "C19.0", "embedded bad2()", "join of a list materialised from free_symbols is reported")
    rep.check(not o.findings["m.good"], "C19.0", "embedded good()", "sorted() sanitises")


def c19_1(rep, O, ix):
    R = "C19.1"
    rep.rule(R, "no collection whose iteration order depends on string hashing reaches an order-sensitive sink (indexing, positional call/splat, zip, text rendering, "
                "loop-carried dependency, break/return in a loop, escaping materialisation) in the handwritten package", floor=6)
    nsrc = 0
    pf = ix.funcs.get(PAIR_CLASS + ".__init__")
    pair_cls = pf.cls if pf is not None else PAIR_CLASS           # the class may live in another module and be re-exported
    for q in sorted(O.findings):
        f = ix.funcs[q]
        fs = O.findings[q]
        for (line, text) in O.sources.get(q, []):
            nsrc += 1
            hits = [x for x in fs if x.taint.src == text and x.severity == "sink" and not (f.cls == pair_cls and f.name == "__init__")]
            if not hits:
                rep.ok(R, "%s:%d %s" % ("blackbird_python/blackbird/%s.py" % f.mod, line, q), "unordered source `%s` reaches no order-sensitive sink" % text[:100])
        for x in fs:
            site = ix.site(f, x.node)
            if x.severity == "sink":
                if f.cls == pair_cls and f.name == "__init__":
                    continue          # decided by the pairing rule
                rep.bad(R, site, "`%s` does not expose a hash-seed dependent order" % x.text, "%s; source: %s" % (x.sink, x.taint.src), key="%s|%s" % (q, x.text))
            elif x.severity == "sink-int" and x.sink.startswith(("zip pairs", "enumerate() numbers", "indexing / slicing", "positional", "position lookup", "next() takes", "set.pop()")):
                # the set's elements are integers, so its order does not vary with the hash seed - but the property also asks that the
                # content be independent "of the order in which sets of ... modes happen to be iterated": pairing / numbering / picking
                # elements by that order makes the content a function of how the set was built
                rep.bad(R, site, "`%s` does not pair, number or pick the elements of a set by its iteration order" % x.text, "%s; source: %s (integer elements: the order depends on how the set "
                        "was built, not on the seed)" % (x.sink, x.taint.src), key="%s|%s" % (q, x.text))
            elif x.severity == "sink-int":
                rep.info(R, site, "`%s`: order of an int-element set becomes observable (seed independent; decided under C07/C16 where value order matters)" % x.text, x.sink)
            else:
                rep.info(R, site, "`%s`: unordered collection rendered into an exception message only" % x.text, x.sink)
    rep.extra["unordered_sources"] = nsrc


def pairing(rep, O, ix, R):
    rep.rule(R, "the single documented exception - RegRefTransform's register order - occurs only in its paired form: func and regrefs derive from one materialisation of expr.free_symbols, "
                "in the same order, and are assigned nowhere else", floor=3)
    f = ix.func(PAIR_CLASS + ".__init__")
    q = f.qual
    fs = [x for x in O.findings.get(q, []) if x.severity == "sink"]
    stores = {}
    for n in ast.walk(f.node):
        if isinstance(n, ast.Assign) and len(n.targets) == 1 and isinstance(n.targets[0], ast.Attribute) and u(n.targets[0].value) == "self":
            stores.setdefault(n.targets[0].attr, []).append(n)
    if "func" not in stores or "regrefs" not in stores:
        # lazy form: func / regrefs are (cached) properties of the class; each computes its value on first access
        pf, pr = ix.funcs.get(PAIR_CLASS + ".func"), ix.funcs.get(PAIR_CLASS + ".regrefs")
        if pf is None or pr is None:
            raise Inconclusive("RegRefTransform: func / regrefs are neither assigned in __init__ nor properties of the class")
        from ..py import norm as _norm
        ef, er = _norm.as_expression((getattr(pf, "orig", None) or pf.node).body), _norm.as_expression((getattr(pr, "orig", None) or pr.node).body)
        if ef is None or er is None:
            raise Inconclusive("RegRefTransform.func / .regrefs: property bodies are not single expressions")
        o1 = ef.args[0] if isinstance(ef, ast.Call) and u(ef.func).endswith("lambdify") and len(ef.args) >= 2 else None
        rv = er
        outer_sorted = False
        while isinstance(rv, ast.Call) and u(rv.func) in ("list", "tuple", "sorted") and rv.args:
            outer_sorted = outer_sorted or u(rv.func) == "sorted"
            rv = rv.args[0]
        o2 = rv.generators[0].iter if isinstance(rv, (ast.ListComp, ast.GeneratorExp)) and len(rv.generators) == 1 and not rv.generators[0].ifs else None
        if o1 is None or o2 is None:
            raise Inconclusive("RegRefTransform.func / .regrefs: property expressions not recognised")
        t1, t2 = " ".join(u(o1).split()), " ".join(u(o2).split())
        shared = isinstance(o1, ast.Attribute) and u(o1.value) == "self" and t1 == t2 and not outer_sorted       # one stored sequence read by both
        same_sort = t1 == t2 and t1.startswith("sorted(") and "free_symbols" in t1 and not outer_sorted   # the same deterministic order computed twice
        rep.check(shared or same_sort, R, ix.site(pf), "func and regrefs (computed lazily) order the registers by one and the same sequence",
                  "func takes its parameters in the order of `%s`, regrefs lists the registers in the order of `%s`%s: the value measured for one register is passed for another whenever the two "
                  "orders differ (q10 sorts before q2 as text, after it as a number)" % (t1[:60], t2[:60], " and sorts them again" if outer_sorted else ""), key=q + "|lazy pair")
        return
    fn, rg = stores["func"][-1], stores["regrefs"][-1]
    ok_shape = len(stores["func"]) == 1 and len(stores["regrefs"]) == 1
    # func = <x>.lambdify(B, expr)
    B = None
    v = fn.value
    if isinstance(v, ast.Call) and u(v.func).endswith("lambdify") and len(v.args) >= 2 and isinstance(v.args[0], ast.Name):
        B = v.args[0].id
        expr_ok = isinstance(v.args[1], ast.Name) and v.args[1].id == f.params[1]
    else:
        expr_ok = False
    rep.check(ok_shape and B is not None and expr_ok, R, ix.site(f, fn), "self.func = lambdify(<binding>, expr): the first argument is a local binding and the second the constructor's expression")
    # B bound exactly once, to a materialisation (or sorted) of expr.free_symbols
    binds = [n for n in ast.walk(f.node) if isinstance(n, ast.Assign) and any(isinstance(t, ast.Name) and t.id == B for t in n.targets)] if B else []
    src_ok = False
    if len(binds) == 1:
        v = binds[0].value
        ex = f.params[1]
        while isinstance(v, ast.Call) and u(v.func) in ("list", "tuple", "sorted") and v.args:
            v = v.args[0]
        if u(v) == "%s.free_symbols" % ex:
            src_ok = True
        elif isinstance(v, (ast.ListComp, ast.GeneratorExp)) and len(v.generators) == 1 and u(v.generators[0].iter) == "%s.free_symbols" % ex and not v.generators[0].ifs \
                and u(v.elt) == u(v.generators[0].target):
            src_ok = True
    rep.check(src_ok, R, ix.site(f, binds[0] if binds else f.node), "the binding `%s` materialises all of expr.free_symbols exactly once (no filter: every register of the expression is an input)" % B,
              "got `%s`" % (" ".join(u(binds[0].value).split())[:80] if binds else None), key=q + "|binding")
    # regrefs = order-preserving map over B
    rv = rg.value
    while isinstance(rv, ast.Call) and u(rv.func) in ("list", "tuple") and len(rv.args) == 1:
        rv = rv.args[0]
    pres = isinstance(rv, (ast.ListComp, ast.GeneratorExp)) and len(rv.generators) == 1 and isinstance(rv.generators[0].iter, ast.Name) and rv.generators[0].iter.id == B \
        and not rv.generators[0].ifs
    rep.check(pres, R, ix.site(f, rg), "self.regrefs is an order-preserving element-wise map of the same binding `%s` (no sorted/set/filter in between)" % B,
              "got `%s`" % " ".join(u(rg).split())[:120], key=q + "|regrefs")
    # the element map is int(str(sym)[k:]) - decided under C08.3
    # nowhere else
    for qq, g in ix.funcs.items():
        for n in ast.walk(g.node):
            tg = []
            if isinstance(n, ast.Assign):
                tg = n.targets
            elif isinstance(n, (ast.AugAssign, ast.AnnAssign)):
                tg = [n.target]
            for t in tg:
                if isinstance(t, ast.Attribute) and t.attr in ("regrefs", "func") and not (qq == q):
                    rep.bad(R, ix.site(g, n), "`%s`: func/regrefs of a register transform are assigned only together in its constructor" % " ".join(u(n).split())[:100],
                            "re-assigning one of the pair breaks the pairing", key="%s|%s" % (qq, " ".join(u(n).split())[:100]))
            if isinstance(n, ast.Call) and isinstance(n.func, ast.Attribute) and n.func.attr in ("sort", "reverse") and isinstance(n.func.value, ast.Attribute) and n.func.value.attr == "regrefs":
                rep.bad(R, ix.site(g, n), "`%s`: regrefs is never reordered in place" % u(n), key="%s|%s" % (qq, u(n)))
    rep.ok(R, "package", "no other assignment to .func / .regrefs found")
