def c18_4(rep):
    rep.note("C18.4 (position taint in handwritten modules) is added with the Python program model")
