"""C18.4 - Python side: the script text reaches the lexer unmodified, and handwritten semantic code reads script content only through
getText() and typed accessors; token positions flow only into exception messages."""
import ast

from ..py.index import u, walk_shallow
from . import common

POS_ATTRS = {"line", "column", "tokenIndex", "getSourceInterval", "getInputStream", "getTokenSource", "start", "stop", "getSymbol", "symbol", "invokingState",
             "getAltNumber", "depth"}
SEMANTIC_MODULES = ("listener", "auxiliary")


def c18_4(rep):
    from . import c10
    ix = common.index(rep)
    common.guarded(rep, "C18.4", c10.c10_2, rep, ix, R="C18.4")
    c18_5(rep, ix)


def c18_5(rep, ix):
    R = "C18.5"
    rep.rule(R, "in the handwritten semantic modules, token positions and raw stream objects (line, column, start, stop, tokenIndex, source intervals) flow only into exception messages", floor=4)
    # layout tokens can also be seen through the generic listener hooks (every token / every rule) and through token-type constants
    LAYOUT = ("TAB", "NEWLINE", "SPACE", "COMMENT")
    for q, f in sorted(ix.funcs.items()):
        if f.mod not in SEMANTIC_MODULES:
            continue
        if f.cls and f.name in ("visitTerminal", "visitErrorNode", "enterEveryRule", "exitEveryRule") and q == f.qual:
            body = [s_ for s_ in f.node.body if not (isinstance(s_, ast.Expr) and isinstance(s_.value, ast.Constant)) and not isinstance(s_, ast.Pass)]
            rep.check(not body, R, ix.site(f), "the listener defines no hook that runs on every token / every rule (such a hook sees TAB, NEWLINE and the tokens of comments-free layout)",
                      "`%s` runs on every token: what it does depends on how the script is laid out" % f.name, key="%s|generic hook" % q)
        for c in ast.walk(f.node):
            if isinstance(c, ast.Attribute) and c.attr in LAYOUT and isinstance(c.value, ast.Name) and c.value.id in ("blackbirdParser", "blackbirdLexer") and isinstance(c.ctx, ast.Load):
                par_call = any(isinstance(p_, ast.Call) and p_.func is c for p_ in ast.walk(f.node))
                if not par_call:
                    rep.bad(R, ix.site(f, c), "semantic code does not test for layout token types", "`%s`: a token-type constant of a layout token is used (comparison with a token's type)" % u(c),
                            key="%s|layout type %s" % (q, c.attr))
    # helpers that hand a position back to their caller (`return ctx.start.line`, a record of line and column): the position is followed into
    # every caller, where the result of the call is a position like any other
    CARRIERS.clear()
    for q, f in sorted(ix.funcs.items()):
        if f.mod in SEMANTIC_MODULES and q == f.qual and q not in ix.known:
            rets = [r for r in ast.walk(f.node) if isinstance(r, ast.Return) and r.value is not None]
            if rets and all(not is_exception_return(r) for r in rets) and any(pos_expr(r.value, set()) for r in rets) \
                    and not any(isinstance(n, ast.Attribute) and isinstance(n.ctx, ast.Store) for n in ast.walk(f.node)):
                CARRIERS.add(f.name)
    for q, f in sorted(ix.funcs.items()):
        if f.mod not in SEMANTIC_MODULES:
            continue
        for c in ast.walk(f.node):
            if isinstance(c, ast.Call) and isinstance(c.func, ast.Attribute) and c.func.attr in ("TAB", "NEWLINE", "SPACE", "COMMENT") and not (isinstance(c.func.value, ast.Name) and c.func.value.id in ("np", "blackbirdParser")):
                rep.bad(R, ix.site(f, c), "semantic code does not inspect layout tokens", "`%s`: the program would depend on how a line is indented / terminated" % " ".join(u(c).split())[:60],
                        key="%s|layout token %s" % (q, c.func.attr))
            if isinstance(c, ast.Compare) and any(isinstance(x, ast.Constant) and isinstance(x.value, str) and x.value and x.value.strip(" \t\r\n") == "" for x in [c.left] + c.comparators):
                rep.bad(R, ix.site(f, c), "semantic code does not compare token text with white space", "`%s`" % " ".join(u(c).split())[:60], key="%s|ws compare" % q)
        fn = f.node
        tainted = set()
        changed = True
        stmts = [n for n in ast.walk(fn) if isinstance(n, ast.stmt)]
        while changed:
            changed = False
            for s in stmts:
                if isinstance(s, ast.Assign) and len(s.targets) == 1 and isinstance(s.targets[0], ast.Name):
                    if pos_expr(s.value, tainted) and s.targets[0].id not in tainted:
                        tainted.add(s.targets[0].id)
                        changed = True
        for s in stmts:
            if isinstance(s, (ast.If, ast.For, ast.While, ast.Try, ast.With, ast.FunctionDef)):
                heads = [s.test] if isinstance(s, (ast.If, ast.While)) else ([s.iter] if isinstance(s, ast.For) else [])
            else:
                heads = [s]
            for h in heads:
                uses = [n for n in ast.walk(h) if (isinstance(n, ast.Attribute) and n.attr in POS_ATTRS and looks_like_tree(n.value, tainted)) or
                        (isinstance(n, ast.Name) and n.id in tainted and isinstance(n.ctx, ast.Load))]
                if not uses:
                    continue
                txt = " ".join(u(h).split())[:100]
                if isinstance(s, ast.Return) and f.name in CARRIERS and q == f.qual:
                    rep.ok(R, ix.site(f, s), "`%s`: position handed to the callers, where it is followed" % txt)
                elif isinstance(s, ast.Raise) or is_exception_return(s):
                    rep.ok(R, ix.site(f, s), "`%s`: position used in an exception message" % txt)
                elif isinstance(s, ast.Assign) and len(s.targets) == 1 and isinstance(s.targets[0], ast.Name) and s.targets[0].id in tainted:
                    rep.ok(R, ix.site(f, s), "`%s`: position kept in a local that only reaches exception messages" % txt)
                else:
                    rep.bad(R, ix.site(f, s), "`%s` does not let a token position influence the program" % txt, "position-dependent value used outside an exception message", key="%s|%s" % (q, txt))


def looks_like_tree(e, tainted):
    """receiver is a parse-tree object: ctx / child / expr / accessor call result / tainted token"""
    if isinstance(e, ast.Name):
        return e.id in tainted or e.id in ("ctx", "expr", "child", "arg", "token", "c", "i", "j", "m", "v", "number", "function", "arguments", "nonnumeric", "statement")
    if isinstance(e, ast.Call) and isinstance(e.func, ast.Attribute):
        return True
    if isinstance(e, ast.Attribute):
        return looks_like_tree(e.value, tainted)
    return False


def pos_expr(e, tainted):
    """the value of e may depend on a token position: some sub-expression reads a position attribute or a tainted local"""
    return any(pos_atom(x, tainted) for x in ast.walk(e))


CARRIERS = set()


def pos_atom(e, tainted):
    if isinstance(e, ast.Call) and ((isinstance(e.func, ast.Name) and e.func.id in CARRIERS) or (isinstance(e.func, ast.Attribute) and e.func.attr in CARRIERS)):
        return True
    if isinstance(e, ast.Attribute) and e.attr in POS_ATTRS and looks_like_tree(e.value, tainted):
        return True
    if isinstance(e, ast.Name) and e.id in tainted:
        return True
    if isinstance(e, ast.Call) and isinstance(e.func, ast.Attribute) and e.func.attr in POS_ATTRS and looks_like_tree(e.func.value, tainted):
        return True
    return False


def is_exception_return(s):
    """`return SomeError(...)`: a helper that builds the exception its callers raise"""
    return isinstance(s, ast.Return) and isinstance(s.value, ast.Call) and u(s.value.func).split(".")[-1].endswith(("Error", "Exception"))
