"""C08 - measured-register arguments become transforms computing the written formula (G, ORD, SIB, GRD; DESIGN 5/C08)."""
import ast
import itertools

from ..report import Inconclusive
from ..gram import model as gm
from ..gram.g4 import Lit, Ref
from ..py.eff import nonfresh
from ..py.guards import AEval, Reach, KINDS, ModelError, resolved_text, stmt_of, single_assignments
from ..py.index import u, walk_shallow
from . import common
from .c19 import get_ord, pairing

EVAL = "auxiliary._expression"
STMT = "listener.BlackbirdListener.exitStatement"
RRT = "listener.RegRefTransform.__init__"
PARAMS = "_PARAMS"


def run(rep, tier):
    rep.trust(*common.PY_TRUST)
    rep.trust("sympy.lambdify(symbols, expr) returns a function computing expr with positional parameters in the order of `symbols`")
    ix = common.index(rep)
    G = gm.Grammar(gm.read(gm.FILES["g4"], rep))
    common.guarded(rep, "C08.1", c08_1, rep, ix, G)
    common.guarded(rep, "C08.2", pairing, rep, get_ord(rep), ix, "C08.2")
    common.guarded(rep, "C08.3", c08_3, rep, ix, G)
    common.guarded(rep, "C08.4", c08_4, rep, ix)
    common.guarded(rep, "C08.5", c08_5, rep, ix)
    # the formula inside the transform is what _expression builds from the symbols: the operator semantics (for every operand kind,
    # symbols included) are a necessary part of "computing the written formula"
    from . import c03
    from ..py.ctxtypes import ContextClasses
    M = gm.Model(rep)
    cc = ContextClasses(M.src["py_parser"])
    br = common.guarded(rep, "C03.2", c03.c03_2, rep, ix, M)
    if br:
        common.guarded(rep, "C03.3", c03.c03_3, rep, ix, M, cc, br)
        common.guarded(rep, "C03.8", c03.c03_8, rep, ix, M, cc, br)
        common.guarded(rep, "C03.9", c03.c03_9, rep, ix, M, cc, br)
    common.guarded(rep, "C03.4", c03.c03_4, rep, ix, M)
    # the value delivered for an argument is the evaluator's result, unconverted and unsimplified (shared with C02)
    from . import c02
    common.guarded(rep, "C02.3", c02.c02_3, rep, ix, M)
    # a statement in a loop body is evaluated anew in every iteration: its transforms are built from that iteration's values
    from . import c06
    common.guarded(rep, "C06.1", c06.c06_1, rep, ix, M.G)
    common.guarded(rep, "C06.2", c06.c06_2, rep, ix)


def c08_1(rep, ix, G):
    R = "C08.1"
    rep.rule(R, "a register reference qN evaluates to the SymPy symbol named by the token text", floor=2)
    f = ix.func(EVAL)
    fn = f.node
    hits = []
    for n in walk_shallow(fn):
        if isinstance(n, ast.If) and u(n.test) in ("expr.REGREF()", "expr.REGREF() is not None"):
            for s in n.body:
                if isinstance(s, ast.Return):
                    hits.append((n, s))
    if len(hits) != 1:
        raise Inconclusive("_expression: REGREF branch not recognised")
    n, s = hits[0]
    v = s.value
    ok = isinstance(v, ast.Call) and u(v.func) in ("Symbol", "sym.Symbol", "sympy.Symbol") and len(v.args) == 1 and not v.keywords and resolved_text(fn, v.args[0], s) == "expr.getText()"
    rep.check(ok, R, ix.site(f, s), "REGREF -> Symbol(<token text>)", "returns `%s`" % u(v), key="symbol")
    # the branch sits under the VariableLabel alternative, which is (REGREF | NAME) in the grammar
    lab = dict(zip(G.R["expression"].body.labels, G.R["expression"].body.alts)).get("VariableLabel")
    toks = sorted(r.name for it in (lab.items if lab else []) for r in ([it] if isinstance(it, Ref) else [x for a in getattr(it, "alts", []) for x in a.items if isinstance(x, Ref)]))
    rep.check(toks == ["NAME", "REGREF"], R, "blackbird.g4 expression#VariableLabel", "the VariableLabel alternative is (REGREF | NAME)", "got %s" % toks)


def c08_3(rep, ix, G):
    R = "C08.3"
    rep.rule(R, "the register number is the symbol text after a prefix whose length equals the literal prefix of the grammar's REGREF rule", floor=2)
    r = G.R["REGREF"]
    items = r.body.alts[0].items
    pre = items[0].text if items and isinstance(items[0], Lit) else None
    rest_ok = len(items) == 2 and isinstance(items[1], Ref) and items[1].name == "DIGIT"
    rep.check(pre is not None and rest_ok and len(r.body.alts) == 1, R, "blackbird.g4 REGREF", "REGREF is a literal prefix followed by DIGIT", "prefix %r" % pre)
    f = ix.func(RRT)
    st = [n for n in walk_shallow(f.node) if isinstance(n, ast.Assign) and u(n.targets[0]) == "self.regrefs"]
    if len(st) != 1:
        raise Inconclusive("RegRefTransform.__init__: self.regrefs assignment not found")
    v = st[0].value
    while isinstance(v, ast.Call) and u(v.func) in ("list", "tuple", "sorted") and v.args:
        v = v.args[0]
    ok = False
    detail = u(v)
    if isinstance(v, (ast.ListComp, ast.GeneratorExp)):
        tv = u(v.generators[0].target)
        want = "int(str(%s)[%d:])" % (tv, len(pre or ""))
        alt = "int(%s.name[%d:])" % (tv, len(pre or ""))
        ok = u(v.elt) in (want, alt)
        detail = "element `%s`, expected `%s`" % (u(v.elt), want)
    rep.check(ok, R, ix.site(f, st[0]), "register number = int(<symbol text>[%d:])" % len(pre or ""), detail, key="prefix")
    # construction evaluates nothing: the function is built, not called (a probe point can be a pole or outside the domain of a perfectly good
    # transform - 1/(q0-1) at 1 - and loading a script must not depend on it)
    fnames = {u(a.targets[0]) for a in walk_shallow(f.node) if isinstance(a, ast.Assign) and len(a.targets) == 1 and isinstance(a.value, ast.Call) and u(a.value.func).endswith("lambdify")}
    fnames |= {"self.func"}
    calls = [c for c in ast.walk(f.node) if isinstance(c, ast.Call) and u(c.func) in fnames]
    for c in calls:
        rep.bad(R, ix.site(f, c), "the constructor does not evaluate the transform", "`%s`: the function is called while the script is being loaded; where the probe point is a pole, or the value is not "
                "what the probe expects, a well-formed script is refused" % " ".join(u(c).split())[:60], key="ctor evaluates")
    if not calls:
        rep.ok(R, ix.site(f), "RegRefTransform.__init__ builds the function and does not call it (%d names checked)" % len(fnames))


def wrap_sites(fn):
    """assignments `<container>[<key>] = <value>` where the value is (a call producing) a RegRefTransform"""
    out = []
    for n in walk_shallow(fn):
        if isinstance(n, ast.Assign) and len(n.targets) == 1 and isinstance(n.targets[0], ast.Subscript) and isinstance(n.value, ast.Call) and "RegRefTransform" in u(n.value.func) or (
                isinstance(n, ast.Assign) and len(n.targets) == 1 and isinstance(n.targets[0], ast.Subscript) and isinstance(n.value, ast.Call) and "regref" in u(n.value.func).lower()):
            out.append(n)
    return out


def c08_4(rep, ix):
    R = "C08.4"
    rep.rule(R, "positional and keyword arguments are wrapped alike: exactly the SymPy values whose symbols are not all template parameters become RegRefTransform(<that value>), built fresh at that point",
             floor=20)
    f = ix.func(STMT)
    fn = f.node
    sites = wrap_sites(fn)
    slots = {}
    extracted = set()
    kw_container = None
    for a in walk_shallow(fn):
        if isinstance(a, ast.Assign) and isinstance(a.targets[0], ast.Tuple) and "_get_arguments(" in u(a.value):
            extracted |= {u(x) for x in a.targets[0].elts}
            if len(a.targets[0].elts) == 2:
                kw_container = u(a.targets[0].elts[1])            # (positional values, keyword values)
    if not extracted:
        raise Inconclusive("exitStatement: unpacking of _get_arguments not recognised")
    for st in sites:
        cont = u(st.targets[0].value)
        loops = [l for l in walk_shallow(fn) if isinstance(l, ast.For) and any(x is st for x in ast.walk(l))]
        loops = [l for l in loops if not any(m is not l and any(x is m for x in ast.walk(l)) for m in loops)]
        if len(loops) != 1:
            raise Inconclusive("exitStatement: wrapping site `%s` is not inside a single loop" % u(st))
        l = loops[0]
        it = u(l.iter)
        if it == "enumerate(%s)" % cont:
            slot, var = "positional", u(l.target.elts[1])
            keyok = u(st.targets[0].slice) == u(l.target.elts[0])
        elif it == "%s.items()" % cont:
            slot, var = "keyword", u(l.target.elts[1])
            keyok = u(st.targets[0].slice) == u(l.target.elts[0])
        elif it in (cont, "%s.keys()" % cont, "list(%s)" % cont) and isinstance(l.target, ast.Name) and l.body and isinstance(l.body[0], ast.Assign) and isinstance(l.body[0].targets[0], ast.Name) \
                and " ".join(u(l.body[0].value).split()) == "%s[%s]" % (cont, l.target.id) and cont == kw_container:
            # keys iterated, value looked up first: `for k in op_kwargs: v = op_kwargs[k]`
            slot, var = "keyword", l.body[0].targets[0].id
            keyok = u(st.targets[0].slice) == l.target.id
        elif cont not in extracted:
            # a transform kept in some other container: the object that reaches the operation is no longer built at the point of wrapping
            rep.bad(R, ix.site(f, st), "a RegRefTransform is constructed only as the replacement of the argument it wraps", "`%s` keeps the transform in `%s` (cached / shared object)" % (
                " ".join(u(st).split())[:70], cont), key="cache|" + cont)
            continue
        else:
            raise Inconclusive("exitStatement: wrapping loop `for ... in %s` not recognised" % it)
        slots[slot] = (st, l, var)
        rep.check(keyok, R, ix.site(f, st), "%s slot: the transform replaces the element it was computed from" % slot, key=slot + "|key")
        # whether the arguments are looked at at all depends on nothing but their presence: a condition around the conversion loop that
        # inspects the *text* of the statement (a register spelled out in the arguments, say) misses registers that arrive through a variable
        from ..py.guards import path_to
        for (stmts_, i_, fld_) in path_to(fn.body, l) or []:
            s_ = stmts_[i_]
            if isinstance(s_, ast.If) and fld_ == "body":
                t_ = " ".join(u(s_.test).split())
                def atom_p(node):
                    if isinstance(node, ast.Name) and node.id in extracted:
                        return ("x",)
                    if " ".join(u(node).split()) in ("ctx.arguments()",):
                        return "CTX"
                    return AEval.NO
                try:
                    c_ = bool(AEval(atom_p).truth(AEval(atom_p).ev(s_.test)))
                except Exception:
                    c_ = None
                if c_ is None and any(k_ in t_ for k_ in ("getText()", ".search(", ".match(", ".fullmatch(", ".findall(", " in str(")):
                    rep.bad(R, ix.site(f, s_), "%s slot: every argument value is examined for measured registers" % slot,
                            "the conversion loop runs only if `%s`: it looks at the text of the statement, and a register that reaches an argument through a declared variable is not in that text"
                            % t_[:70], key=slot + "|text gate")
        v = st.value
        direct = u(v.func) == "RegRefTransform" and len(v.args) == 1 and u(v.args[0]) == var and not v.keywords
        rep.check(direct, R, ix.site(f, st), "%s slot: the stored value is RegRefTransform(<the element>) constructed at this point (not a cached or shared object)" % slot,
                  "stores `%s`" % u(v), key=slot + "|direct")
        # guard semantics
        alias_l = single_assignments(fn)
        for kname, model, S, P, want in wrap_models():
            def atom(node, model=model, S=S, P=P, depth=[0]):
                if isinstance(node, ast.Name) and node.id == var:
                    return model
                if isinstance(node, ast.Name) and node.id == PARAMS:
                    return tuple(P)
                if isinstance(node, ast.Name) and node.id in alias_l and node.id != var and depth[0] < 4:
                    depth[0] += 1            # a local bound once in the handler (e.g. `params = set(_PARAMS)`)
                    try:
                        return AEval(atom).ev(alias_l[node.id])
                    finally:
                        depth[0] -= 1
                return AEval.NO
            r = reach_in_loop(l, st, atom)
            rep.check(r == want, R, ix.site(f, st), "%s slot: a %s value with symbols {%s} and template parameters {%s} is %s" % (
                slot, kname, ",".join(S), ",".join(P), "wrapped" if want else "left as it is"), key="%s|%s|%s|%s" % (slot, kname, S, P))
    # rebuilding form: X = [H(a) for a in X] / {k: H(v) for k, v in X.items()} - the element expression is interpreted on every model
    for n in walk_shallow(fn):
        if not (isinstance(n, ast.Assign) and len(n.targets) == 1 and isinstance(n.targets[0], ast.Name) and isinstance(n.value, (ast.ListComp, ast.DictComp)) and len(n.value.generators) == 1):
            continue
        g = n.value.generators[0]
        it = " ".join(u(g.iter).split())
        if isinstance(n.value, ast.ListComp) and it in extracted and isinstance(g.target, ast.Name) and not g.ifs:
            slot, var, elt = "positional", g.target.id, n.value.elt
        elif isinstance(n.value, ast.DictComp) and it[:-len(".items()")] in extracted and it.endswith(".items()") and isinstance(g.target, ast.Tuple) and len(g.target.elts) == 2 and not g.ifs \
                and u(n.value.key) == u(g.target.elts[0]):
            slot, var, elt = "keyword", u(g.target.elts[1]), n.value.value
        else:
            continue
        if slot in slots:
            continue
        # the rebuilt container must be the one the operation stores
        used = [d for d in walk_shallow(fn) if isinstance(d, ast.Dict) and any(isinstance(k, ast.Constant) and k.value == "op" for k in d.keys)]
        ok_used = any(u(v_) == n.targets[0].id for d in used for v_ in d.values)
        rep.check(ok_used, R, ix.site(f, n), "%s slot: the rebuilt container is the one stored in the operation" % slot, key=slot + "|stored")
        slots[slot] = (n, None, var)
        alias = single_assignments(fn)
        for kname, model, S, P, want in wrap_models():
            def atom(node, model=model, P=P, depth=[0]):
                if isinstance(node, ast.Name) and node.id == var:
                    return model
                if isinstance(node, ast.Name) and node.id == PARAMS:
                    return tuple(P)
                if isinstance(node, ast.Name) and node.id in alias and node.id not in (var,) and depth[0] < 4:
                    depth[0] += 1
                    try:
                        return AEval(atom).ev(alias[node.id])
                    finally:
                        depth[0] -= 1
                return AEval.NO
            try:
                r = AEval(atom).ev(elt)
                got = "wrapped" if (isinstance(r, tuple) and r[:1] == ("RRT",) and r[1] is model) else ("left as it is" if r is model else "replaced by %r" % (r,))
            except ModelError as e_:
                got = "refused (%s)" % e_
            rep.check(got == ("wrapped" if want else "left as it is"), R, ix.site(f, n), "%s slot: a %s value with symbols {%s} and template parameters {%s} is %s" % (
                slot, kname, ",".join(S), ",".join(P), "wrapped" if want else "left as it is"), "it is %s" % got, key="%s|%s|%s|%s" % (slot, kname, S, P))


def wrap_models():
    """(label, model element, symbols of the value, template parameters, must it be wrapped?) - registers with one and with several
    digits (the REGREF token is 'q' DIGIT with DIGIT = [0-9]+), alone, together, and mixed with a template parameter; symbolic values
    of every expression head (a lone symbol, a sum, a product, a power, a function application)"""
    from ..py.guards import SYM_KINDS
    syms = ["q0", "q10", "p"]
    out = []
    for head, k in SYM_KINDS.items():
        for r in ((1,) if head == "Symbol" else (1, 2)):
            for S in itertools.combinations(syms, r):
                for P in ((), ("p",)):
                    extra = dict(free_symbols=frozenset(S))
                    if head == "Symbol":
                        extra["symbol"] = S[0]
                    out.append(("Sym/%s" % head, k.with_attrs(**extra), S, P, not set(S) <= set(P)))
    for kname in ("PyFloat", "PyInt", "NpFloat", "PyStr", "PyComplex"):
        for P in ((), ("p",)):
            out.append((kname, KINDS[kname], (), P, False))
    return out


def reach_in_loop(loop, st, atom):
    fake = ast.FunctionDef(name="_", args=ast.arguments(posonlyargs=[], args=[], kwonlyargs=[], kw_defaults=[], defaults=[]), body=loop.body, decorator_list=[])
    return Reach(fake, st, aliases=False).may_reach(atom)


def c08_5(rep, ix):
    R = "C08.5"
    rep.rule(R, "only template parameters enter the parameter table: every writer of _PARAMS adds a symbol/name that derives from a {name} parameter (or a tdm p-array name)", floor=3)
    n = 0
    for q, f in sorted(ix.funcs.items()):
        if q in getattr(ix, "absorbed", ()):
            continue            # a private helper read into all of its callers: judged there, in context
        for c in walk_shallow(f.node):
            if isinstance(c, ast.Call) and isinstance(c.func, ast.Attribute) and u(c.func.value) == PARAMS and c.func.attr in ("append", "extend", "insert", "add", "update"):
                n += 1
                st = stmt_of(f.node, c)
                arg = c.args[-1] if c.args else None
                txt = resolved_text(f.node, arg, st) if arg is not None else ""
                ok = ".parameter().NAME().getText()" in txt or "parameters[" in txt or (arg is not None and is_symbol_grid(f.node, st, arg) and in_param_array_branch(f.node, st)) or guarded_by_ptype(f.node, st)
                rep.check(ok, R, ix.site(f, c), "`%s` adds only parameter-derived names" % " ".join(u(c).split())[:70], "adds `%s`" % txt[:80], key="%s|%s" % (q, " ".join(u(c).split())[:70]))
            if isinstance(c, (ast.AugAssign,)) and u(c.target) == PARAMS:
                rep.bad(R, ix.site(f, c), "`%s` adds only parameter-derived names" % u(c), key="%s|%s" % (q, u(c)))
    if n == 0:
        raise Inconclusive("no writer of _PARAMS found")


def is_symbol_grid(fn, st, arg):
    """arg reads the array of element symbols that becomes the variable's value: `final_value` itself, or a local that is assigned to
    `final_value` afterwards in the same block"""
    from ..py.index import root_name
    from ..py.guards import path_to
    r = root_name(arg.func.value if isinstance(arg, ast.Call) and isinstance(arg.func, ast.Attribute) else arg)
    if r is None:
        return "final_value" in u(arg)
    if r == "final_value":
        return True
    p = path_to(fn.body, st)
    if not p:
        return False
    stmts, i, _ = p[-1]
    return any(isinstance(x, ast.Assign) and len(x.targets) == 1 and u(x.targets[0]) == "final_value" and isinstance(x.value, ast.Name) and x.value.id == r for x in stmts[i + 1:])


def in_param_array_branch(fn, st):
    """st is reachable exactly in the whole-array-parameter case: no plain element and exactly one parameter (decided on the four models of
    (array is empty, number of parameters is one), whatever way the test is written)"""
    res = {}
    for empty in (True, False):
        for one in (True, False):
            def atom(node, empty=empty, one=one):
                t = " ".join(u(node).split())
                if t == "final_value.size":
                    return 0 if empty else 5
                if t == "len(parameters)":
                    return 1 if one else 2
                if t in ("len(value)",):
                    return 0 if empty else 5
                if t == "parameters":
                    return ("P",) if one else ("P", "Q")
                return AEval.NO
            try:
                res[(empty, one)] = Reach(fn, st).may_reach(atom)
            except Exception:
                return False
    return res == {(True, True): True, (True, False): False, (False, True): False, (False, False): False}


def guarded_by_ptype(fn, st):
    from ..py.guards import path_to
    p = path_to(fn.body, st)
    for (stmts, i, field) in p or []:
        s = stmts[i]
        if isinstance(s, ast.If) and field == "body" and "is_ptype(" in u(s.test):
            return True
    return False
