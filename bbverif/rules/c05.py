"""C05 - variables have their declared type; arrays keep written layout and shape (G, EXH, GRD; DESIGN 5/C05)."""
import ast
import re

from ..report import Inconclusive
from ..gram import model as gm
from ..gram.g4 import Ref, Alt
from ..py.ctxtypes import ContextClasses
from ..py.guards import AEval, Reach, always_raises, resolved_text, stmt_of
from ..py.index import u, walk_shallow, pos
from . import common

SCALAR = "listener.BlackbirdListener.exitExpressionvar"
ARRAY = "listener.BlackbirdListener.exitArrayvar"
TABLE = "_VAR"
PY_WANT = {"array": "np.ndarray", "float": "float", "complex": "complex", "int": "int", "str": "str", "bool": "bool"}
NP_WANT = {"float": "np.float64", "complex": "np.complex128", "int": "np.int64", "str": "np.str_", "bool": "np.bool_"}
NP_ALT = {"float": {"np.float64", "np.float_", "float"}, "complex": {"np.complex128", "np.complex_", "complex"}, "int": {"np.int64", "np.int_"}, "str": {"np.str_", "str"}, "bool": {"np.bool_", "bool"}}


def run(rep, tier):
    rep.trust(*common.PY_TRUST)
    rep.trust("np.array(list, dtype=T) yields elements of type T in list order; reshape(r, -1) of a flat row-major list with r equal-length rows restores the rows; np.insert(a, i, v) puts v at flat position i")
    ix = common.index(rep)
    M = gm.Model(rep)
    common.guarded(rep, "C05.1", c05_1, rep, ix, M.G)
    common.guarded(rep, "C05.2", c05_2, rep, ix)
    common.guarded(rep, "C05.3", c05_3, rep, ix)
    common.guarded(rep, "C05.4", c05_4, rep, ix)
    common.guarded(rep, "C05.5", c05_5, rep, ix)
    # the initialiser of a str / bool variable is read by _literal: the token's own text, quotes removed, nothing decoded or rewritten
    from . import c02
    common.guarded(rep, "C02.7", c02.c02_7, rep, ix, M)
    # a loop variable is a temporary: it is gone from the table when its loop ends (a later declaration of that name is a variable like any other)
    from . import c06
    common.guarded(rep, "C06.5", c06.c06_5, rep, ix, M.G)
    from . import c03
    cc = ContextClasses(M.src["py_parser"])
    br = common.guarded(rep, "C03.2", c03.c03_2, rep, ix, M)
    if br:
        common.guarded(rep, "C03.8", c03.c03_8, rep, ix, M, cc, br)
        # a later expression over a declared variable sees the value as written: the evaluator's operators build new values
        common.guarded(rep, "C03.3", c03.c03_3, rep, ix, M, cc, br)
    common.guarded(rep, "C05.6", c05_6, rep, ix)
    common.guarded(rep, "C05.7", c05_7, rep, ix)
    common.guarded(rep, "C05.8", c05_8, rep, ix)
    aliasing_lint(rep, ix)
    shared_tables(rep, ix, M.G)
    # an initialiser is the text the caller wrote: nothing rewrites the script between the API and the lexer
    from . import c10
    common.guarded(rep, "C10.2", c10.c10_2, rep, ix)


def c05_7(rep, ix):
    R = "C05.7"
    rep.rule(R, "the variables of the loaded program are the entries of the variable table as they stand when the program ends: published by update / copy of the table, or entry by "
                "entry under the table's own key with the table's own value (no conversion on the way: a 1x1 array stays an array, a NumPy scalar stays what the cast made it)", floor=1)
    e = ix.func("listener.BlackbirdListener.exitProgram")
    fn = e.node
    n = 0
    for c in walk_shallow(fn):
        if isinstance(c, ast.Call) and isinstance(c.func, ast.Attribute) and c.func.attr == "update" and u(c.func.value).endswith("._var") and len(c.args) == 1:
            n += 1
            a = " ".join(u(c.args[0]).split())
            okp = a in ("_VAR", "dict(_VAR)", "_VAR.copy()", "copy.copy(_VAR)", "{**_VAR}")
            if not okp and isinstance(c.args[0], ast.DictComp) and len(c.args[0].generators) == 1 and " ".join(u(c.args[0].generators[0].iter).split()) == "_VAR.items()" \
                    and isinstance(c.args[0].generators[0].target, ast.Tuple) and len(c.args[0].generators[0].target.elts) == 2:
                k_, v_ = (u(x) for x in c.args[0].generators[0].target.elts)
                okp = u(c.args[0].key) == k_ and u(c.args[0].value) == v_
            rep.check(okp, R, ix.site(e, c), "`%s` publishes the table's entries as they are" % " ".join(u(c).split())[:70], "publishes `%s`" % a[:70], key="publish|update")
    for l in walk_shallow(fn):
        if isinstance(l, ast.For) and " ".join(u(l.iter).split()) == "_VAR.items()" and isinstance(l.target, ast.Tuple) and len(l.target.elts) == 2:
            k_, v_ = (u(x) for x in l.target.elts)
            stores = [s_ for s_ in ast.walk(l) if isinstance(s_, ast.Assign) and len(s_.targets) == 1 and isinstance(s_.targets[0], ast.Subscript) and u(s_.targets[0].value).endswith("._var")]
            for s_ in stores:
                n += 1
                val = s_.value
                # the value stored: the loop's own value, possibly through a local bound to it - but never rebound to a converted value
                name = val.id if isinstance(val, ast.Name) else None
                binds = [x for x in ast.walk(l) if isinstance(x, (ast.Assign, ast.AugAssign)) and name is not None and any(
                    isinstance(y, ast.Name) and y.id == name and isinstance(y.ctx, ast.Store) for t_ in (x.targets if isinstance(x, ast.Assign) else [x.target]) for y in ast.walk(t_))]
                plain = name == v_ and not binds
                via = name is not None and name != v_ and len(binds) >= 1 and all(isinstance(b_, ast.Assign) and isinstance(b_.value, ast.Name) and b_.value.id == v_ for b_ in binds)
                conv = [b_ for b_ in binds if not (isinstance(b_, ast.Assign) and isinstance(b_.value, ast.Name) and b_.value.id == v_)]
                rep.check((plain or via) and u(s_.targets[0].slice) == k_, R, ix.site(e, s_), "`%s` stores the table's own value under the table's own key" % " ".join(u(s_).split())[:60],
                          ("the value is converted first: `%s`" % " ".join(u(conv[0]).split())[:60]) if conv else "stores `%s` under `%s`" % (u(val), u(s_.targets[0].slice)), key="publish|entry")
    if not n:
        raise Inconclusive("exitProgram: publication of the variable table not recognised")


def c05_8(rep, ix):
    R = "C05.8"
    rep.rule(R, "every concrete entry of an array is the value of evaluating its element expression: whatever is added to the list of entries is `_expression(<element>)` "
                "(no second reader of the element's text - float('nan'), int('1_000') and the like read texts the grammar gives another meaning)", floor=1)
    f = ix.func(ARRAY)
    fn = f.node
    n = 0
    for c in walk_shallow(fn):
        if isinstance(c, ast.Call) and isinstance(c.func, ast.Attribute) and u(c.func.value) == "value" and c.func.attr in ("append", "extend", "insert") and c.args:
            n += 1
            a = c.args[-1]
            st = stmt_of(fn, c)
            t = resolved_text(fn, a, st) if st is not None else u(a)
            okv = c.func.attr in ("append", "insert") and t.startswith("_expression(")
            if c.func.attr == "extend" and isinstance(a, (ast.ListComp, ast.GeneratorExp)):
                okv = u(a.elt).startswith("_expression(")
            rep.check(okv, R, ix.site(f, c), "`%s` adds the evaluated element" % " ".join(u(c).split())[:60], "adds `%s`" % t[:60], key="entry|" + " ".join(u(c).split())[:50])
        if isinstance(c, ast.AugAssign) and u(c.target) == "value":
            n += 1
            rep.bad(R, ix.site(f, c), "`%s` adds the evaluated element" % " ".join(u(c).split())[:60], key="entry|" + " ".join(u(c).split())[:50])
    if not n:
        raise Inconclusive("exitArrayvar: no statement adds entries to the list handed to np.array")


def c05_6(rep, ix):
    R = "C05.6"
    rep.rule(R, "a value stored in the variable table is never modified in place: no mutation in the package targets an object reached *through* auxiliary._VAR (the table itself is "
                "written by declaration, loop binding and clear only)", floor=1)
    E = common.eff(rep)
    n = 0
    for q, evs in sorted(E.events.items()):
        f = ix.funcs[q]
        for e in evs:
            inner = sorted(o for o in e.target.self_o if o.startswith("IN:") and "GLOBAL:auxiliary._VAR" in o)
            if inner and e.via is None:
                n += 1
                rep.bad(R, ix.site(f, e.node), "`%s` leaves the declared variables as they were written" % " ".join(u(e.node).split())[:70],
                        "%s: the object may be a declared variable's value (%s), which every later expression reads" % (e.what, ", ".join(inner)), key="%s|%s" % (q, " ".join(u(e.node).split())[:60]))
    if not n:
        rep.ok(R, "package", "no in-place modification of an object reached through the variable table (%d mutation events inspected)" % sum(len(v) for v in E.events.values()))


def c05_1(rep, ix, G):
    R = "C05.1"
    rep.rule(R, "the keys of PYTHON_TYPES are exactly the grammar's vartype literals, NUMPY_TYPES the same minus 'array'; each maps to the like-named Python / NumPy type", floor=11)
    vt = G.R["vartype"].body
    toks = [x.name for a in vt.alts for it in a.items for x in ([it] if isinstance(it, Ref) else [y for b in getattr(it, "alts", []) for y in b.items if isinstance(y, Ref)])]
    lits = sorted(G.literal_of(t) for t in toks)
    g = ix.module_globals("listener", follow=True)
    for name, want, alt in (("PYTHON_TYPES", PY_WANT, None), ("NUMPY_TYPES", NP_WANT, NP_ALT)):
        d = g.get(name)
        if not isinstance(d, ast.Dict):
            raise Inconclusive("%s is not a dict display" % name)
        got = {k.value: u(v) for k, v in zip(d.keys, d.values) if isinstance(k, ast.Constant)}
        exp_keys = [l for l in lits if not (name == "NUMPY_TYPES" and l == "array")]
        rep.check(sorted(got) == exp_keys, R, "listener." + name, "%s has exactly the keys %s (the grammar's vartype literals%s)" % (name, exp_keys, " minus 'array'" if name == "NUMPY_TYPES" else ""),
                  "keys %s" % sorted(got), key=name + "|keys")
        for k in exp_keys:
            if k in got:
                ok = got[k] == want.get(k) or (alt and got[k] in alt.get(k, ()))
                rep.check(ok, R, "listener.%s[%r]" % (name, k), "%s[%r] is %s" % (name, k, want.get(k)), "is %s" % got[k], key="%s|%s" % (name, k))


def c05_2(rep, ix):
    R = "C05.2"
    rep.rule(R, "a scalar variable is stored as PYTHON_TYPES[declared type](value) (NumPy type as fallback); only SymPy expressions (template parameters) are stored uncast", floor=3)
    f = ix.func(SCALAR)
    fn = f.node
    stores = [n for n in walk_shallow(fn) if isinstance(n, ast.Assign) and isinstance(n.targets[0], ast.Subscript) and u(n.targets[0].value) == TABLE]
    if not stores:
        raise Inconclusive("exitExpressionvar: no store `_VAR[name] = ...` found")
    vsrc = [n for n in walk_shallow(fn) if isinstance(n, ast.Assign) and isinstance(n.targets[0], ast.Name) and " ".join(u(n.value).split()) in ("_expression(ctx.expression())", "_literal(ctx.nonnumeric())")]
    if not vsrc or len({n.targets[0].id for n in vsrc}) != 1:
        raise Inconclusive("exitExpressionvar: the evaluated initialiser is not bound to one local name")
    VAL = vsrc[0].targets[0].id
    # every value that can be stored: the stored expression itself, or - when a local is stored - each definition of that local
    candidates = []
    for st in stores:
        key = resolved_text(fn, st.targets[0].slice, st)
        rep.check(key == "ctx.name().getText()", R, ix.site(f, st), "the variable is stored under the text of its name", "key `%s`" % key, key="key")
        if isinstance(st.value, ast.Name) and st.value.id != VAL:
            defs = [n for n in walk_shallow(fn) if isinstance(n, ast.Assign) and u(n.targets[0]) == st.value.id]
            if not defs:
                rep.bad(R, ix.site(f, st), "`%s` stores a value defined in this handler" % " ".join(u(st).split())[:60], key="nodef|" + st.value.id)
            candidates += [(d, d.value) for d in defs]
        else:
            candidates.append((st, st.value))
    seen_cast = set()
    for d, v in candidates:
        txt = " ".join(u(d).split())[:70]
        if isinstance(v, ast.Call) and isinstance(v.func, ast.Subscript) and u(v.func.value) in ("PYTHON_TYPES", "NUMPY_TYPES"):
            tkey = resolved_text(fn, v.func.slice, d)
            ok = tkey == "ctx.vartype().getText()" and len(v.args) == 1 and u(v.args[0]) == VAL
            seen_cast.add(u(v.func.value))
            rep.check(ok, R, ix.site(f, d), "`%s` casts the initialiser with the constructor of the declared type" % re.sub(r"_r\d+", "<result>", txt), "type key `%s`" % tkey, key="cast|" + u(v.func.value))
        elif isinstance(v, ast.Name) and v.id == VAL:
            # uncast path: only under isinstance(value, sym.Expr)
            r = Reach(fn, d)
            for sym in (True, False):
                def atom(node, sym=sym):
                    if isinstance(node, ast.Call) and u(node.func) == "isinstance" and u(node.args[0]) == VAL and "Expr" in u(node.args[1]):
                        return sym
                    return AEval.NO
                got = r.may_reach(atom)
                rep.check(got == sym, R, ix.site(f, d), "the uncast store is %s when the value %s a SymPy expression" % ("reachable" if sym else "not reachable", "is" if sym else "is not"), key="uncast|%s" % sym)
        else:
            rep.bad(R, ix.site(f, d), "`%s` is a cast with the declared type or the symbolic pass-through" % txt, key="def|" + txt)
    rep.check("PYTHON_TYPES" in seen_cast, R, ix.site(f), "a non-symbolic initialiser is cast with the Python constructor of the declared type first", "casts seen: %s" % sorted(seen_cast), key="cast first")
    # value comes from the initialiser alternatives (expression | nonnumeric)
    vd = {" ".join(u(n.value).split()) for n in walk_shallow(fn) if isinstance(n, ast.Assign) and u(n.targets[0]) == VAL}
    rep.check(vd == {"_expression(ctx.expression())", "_literal(ctx.nonnumeric())"}, R, ix.site(f), "the initialiser value is the evaluated expression / literal child", "got %s" % sorted(vd), key="value src")


def c05_3(rep, ix):
    R = "C05.3"
    rep.rule(R, "arrays are constructed with dtype=NUMPY_TYPES[declared type] on every path; a declared shape is compared with the actual shape and a mismatch raises before the store", floor=5)
    f = ix.func(ARRAY)
    fn = f.node
    ctors = [n for n in walk_shallow(fn) if isinstance(n, ast.Call) and u(n.func) in ("np.array", "np.asarray", "numpy.array") and n.args and u(n.args[0]) == "value"]
    if not ctors:
        raise Inconclusive("exitArrayvar: np.array(value, ...) not found")
    for c in ctors:
        dt = [k.value for k in c.keywords if k.arg == "dtype"]
        st = stmt_of(fn, c)
        ok = len(dt) == 1 and isinstance(dt[0], ast.Subscript) and u(dt[0].value) == "NUMPY_TYPES" and resolved_text(fn, dt[0].slice, st) == "ctx.vartype().getText()"
        rep.check(ok, R, ix.site(f, c), "`%s` builds the element list with the declared element type" % " ".join(u(c).split())[:70], "dtype `%s`" % (u(dt[0]) if dt else None),
                  key="dtype|" + " ".join(u(c).split())[:70])
    stores = [n for n in walk_shallow(fn) if isinstance(n, ast.Assign) and isinstance(n.targets[0], ast.Subscript) and u(n.targets[0].value) == TABLE]
    if len(stores) != 1:
        raise Inconclusive("exitArrayvar: store into _VAR not recognised")
    st = stores[0]
    r = Reach(fn, st)
    for declared in (False, True):
        for equal in (True, False):
            for single_param in (False,):
                def atom(node, declared=declared, equal=equal):
                    if isinstance(node, ast.Name) and node.id == "shape":
                        return (2, 2) if declared else None
                    if isinstance(node, ast.Name) and node.id == "actual_shape":
                        return (2, 2) if equal else (1, 4)
                    if isinstance(node, ast.Attribute) and node.attr == "shape" and u(node.value) == "final_value":
                        return (2, 2) if equal else (1, 4)
                    if isinstance(node, ast.Compare) and u(node.left) == "final_value.size":
                        return False
                    if isinstance(node, ast.Call) and u(node) == "ctx.shape()":
                        return "S" if declared else None
                    if isinstance(node, ast.Call) and u(node.func) == "len" and u(node.args[0]) in ("row_lengths",):
                        return 1
                    if isinstance(node, ast.Call) and u(node.func) == "any":
                        return False
                    return AEval.NO
                got = r.may_reach(atom)
                want = not (declared and not equal)
                rep.check(got == want, R, ix.site(f, st), "the array is %s when a shape is %s and the actual shape %s" % (
                    "stored" if want else "refused", "declared" if declared else "not declared", "matches" if equal else "differs"), key="shape|%s|%s" % (declared, equal))
    # declared shape parsed from the shape child
    sh = [n for n in walk_shallow(fn) if isinstance(n, ast.Assign) and u(n.targets[0]) == "shape" and not (isinstance(n.value, ast.Constant) and n.value.value is None)]
    ok = len(sh) == 1 and "ctx.shape().getText()" in u(sh[0].value) and "int(" in u(sh[0].value)
    rep.check(ok, R, ix.site(f, sh[0]) if sh else ix.site(f), "the declared shape is the tuple of the INT children of `shape`", key="shape parse")


def c05_4(rep, ix):
    R = "C05.4"
    rep.rule(R, "row boundaries survive: the array is built from a nested list of rows, or a guard over the per-row lengths raises before the flat element list is reshaped by row count", floor=2)
    f = ix.func(ARRAY)
    fn = f.node
    reshapes = [n for n in walk_shallow(fn) if isinstance(n, ast.Call) and isinstance(n.func, ast.Attribute) and n.func.attr == "reshape"]
    if not reshapes:
        rep.ok(R, ix.site(f), "no reshape of a flattened element list")
        return
    rs = reshapes[0]
    # the row count is a counter, or the length of a list that receives one entry per row
    rows_len = rs.args[0].args[0].id if len(rs.args) == 2 and isinstance(rs.args[0], ast.Call) and u(rs.args[0].func) == "len" and len(rs.args[0].args) == 1 and isinstance(rs.args[0].args[0], ast.Name) else None
    okr = len(rs.args) == 2 and u(rs.args[1]) == "-1" and (isinstance(rs.args[0], ast.Name) or rows_len is not None)
    rep.check(okr, R, ix.site(f, rs), "`%s`: rows first, columns inferred (row-major)" % u(rs), "got `%s`" % u(rs), key="reshape")
    rows = u(rs.args[0]) if okr and rows_len is None else None
    # the row counter counts arrayrow children
    rowloop = [l for l in walk_shallow(fn) if isinstance(l, ast.For) and "arrayval().getChildren()" in u(l.iter)]
    rows_only = False
    if not rowloop:
        # the rows themselves are iterated (the parser's list of arrayrow children): ctx.arrayval().row_list / .arrayrow()
        for l in walk_shallow(fn):
            if isinstance(l, ast.For):
                it_ = resolved_text(fn, l.iter, l)
                if it_ in ("ctx.arrayval().row_list", "ctx.arrayval().arrayrow()"):
                    rowloop.append(l)
                    rows_only = True
    if len(rowloop) != 1:
        raise Inconclusive("exitArrayvar: row loop not recognised")
    rl = rowloop[0]
    rowif = [s for s in rl.body if isinstance(s, ast.If) and "ArrayrowContext" in u(s.test)]
    if rows_only and not rowif:
        rowif = [ast.If(test=ast.Constant(value=True), body=list(rl.body), orelse=[])]
    if len(rowif) != 1:
        raise Inconclusive("exitArrayvar: ArrayrowContext filter not recognised")
    # `if isinstance(row, ArrayrowContext): <body>`  or the guard clause  `if not isinstance(row, ArrayrowContext): continue` + <rest of the loop body>
    tst = rowif[0].test
    if isinstance(tst, ast.UnaryOp) and isinstance(tst.op, ast.Not) and len(rowif[0].body) == 1 and isinstance(rowif[0].body[0], ast.Continue) and not rowif[0].orelse:
        body = rl.body[rl.body.index(rowif[0]) + 1:]
    else:
        body = rowif[0].body
    rv = u(rl.target)
    if rows_len is not None:
        inc = [s for s in body if isinstance(s, ast.Expr) and isinstance(s.value, ast.Call) and isinstance(s.value.func, ast.Attribute) and s.value.func.attr == "append" and u(s.value.func.value) == rows_len]
        other = [n for n in ast.walk(fn) if isinstance(n, ast.Call) and isinstance(n.func, ast.Attribute) and u(n.func.value) == rows_len and n.func.attr in ("append", "extend", "insert", "pop", "remove", "clear")
                 and not any(n is s_.value for s_ in inc)]
        rep.check(len(inc) == 1 and not other, R, ix.site(f, rl), "the list whose length is the row count receives one entry per arrayrow child", key="row count")
    else:
        inc = [s for s in body if isinstance(s, ast.AugAssign) and u(s.target) == rows and isinstance(s.op, ast.Add) and u(s.value) == "1"]
        # ... or it is the length of the very collection of rows that is iterated
        by_len = [n for n in walk_shallow(fn) if isinstance(n, ast.Assign) and len(n.targets) == 1 and u(n.targets[0]) == rows and isinstance(n.value, ast.Call) and u(n.value.func) == "len"
                  and len(n.value.args) == 1 and rows_only and resolved_text(fn, n.value.args[0], n) == resolved_text(fn, rl.iter, rl)]
        rep.check(len(inc) == 1 or (not inc and len(by_len) == 1), R, ix.site(f, rl), "the row count is incremented once per arrayrow child", key="row count")
    # guard idioms
    guard = None
    # (a) a set/list of per-row lengths filled inside the row loop, tested after it
    coll = None
    for s in body:
        if isinstance(s, ast.Expr) and isinstance(s.value, ast.Call) and isinstance(s.value.func, ast.Attribute) and s.value.func.attr in ("add", "append") and s.value.args:
            a = " ".join(u(s.value.args[0]).split())
            if a in ("len(%s.expression())" % rv, "len([j for j in %s.getChildren() if j.getText() != ','])" % rv, "len(%s.expression_list)" % rv):
                coll = u(s.value.func.value)
    if coll:
        for s in fn.body:
            if isinstance(s, ast.If) and always_raises(s.body) and pos(s) > pos(rl) and pos(s) < pos(rs):
                t = " ".join(u(s.test).split())
                if t in ("len(%s) > 1" % coll, "len(%s) != 1" % coll, "len(set(%s)) > 1" % coll, "len(set(%s)) != 1" % coll, "len(%s) >= 2" % coll, "len(set(%s)) >= 2" % coll,
                         "any((l != %s[0] for l in %s))" % (coll, coll)):
                    guard = s
    if guard is not None:
        cls = [u(x.exc.func) for x in ast.walk(guard) if isinstance(x, ast.Raise) and isinstance(x.exc, ast.Call)]
        rep.ok(R, ix.site(f, guard), "rows of different lengths raise %s before the reshape (`%s` over the per-row element counts)" % (cls, " ".join(u(guard.test).split())))
    else:
        rep.bad(R, ix.site(f, rs), "a guard over the per-row lengths raises before `%s`" % u(rs),
                "the rows are flattened and re-cut by row count only: rows of different lengths whose total happens to fit are silently rearranged", key="row guard")


def c05_5(rep, ix, R="C05.5"):
    rep.rule(R, "a template parameter among array elements is re-inserted at its ordinal position in the complete (flattened) array: the recorded index counts values and parameters", floor=2)
    f = ix.func(ARRAY)
    fn = f.node
    apps = [n for n in walk_shallow(fn) if isinstance(n, ast.Call) and isinstance(n.func, ast.Attribute) and n.func.attr == "append" and u(n.func.value) == "parameters"]
    # the list the re-insertion loop runs over holds (position, symbol) pairs recorded while the rows are scanned; a symbol that is read
    # back from the module-level parameter table instead is not tied to the element it stands for
    other = [n for n in walk_shallow(fn) if isinstance(n, ast.Assign) and any(isinstance(t, ast.Name) and t.id == "parameters" for t in n.targets)
             and not (isinstance(n.value, ast.List) and not n.value.elts)]
    for n in other:
        if "_PARAMS" in u(n.value):
            rep.bad(R, ix.site(f, n), "every recorded parameter is the symbol obtained by evaluating the element at the recorded position",
                    "`%s` reads the symbols back from the shared parameter table: position and symbol are paired by table order, which other entries / de-duplication break" % " ".join(u(n).split())[:90],
                    key="symbol source")
            return
    if len(apps) != 1 or not isinstance(apps[0].args[0], ast.Tuple) or other:
        raise Inconclusive("exitArrayvar: parameters.append((index, symbol)) not recognised")
    symsrc = resolved_text(fn, apps[0].args[0].elts[1], stmt_of(fn, apps[0])) if len(apps[0].args[0].elts) == 2 else ""
    rep.check(symsrc.startswith("_expression("), R, ix.site(f, apps[0]), "the recorded symbol is the value of evaluating that element", "records `%s`" % symsrc, key="symbol eval")
    ie = apps[0].args[0].elts[0]
    if isinstance(ie, ast.Name):
        # the position bound to a local just before it is recorded
        defs = [n for n in walk_shallow(fn) if isinstance(n, ast.Assign) and len(n.targets) == 1 and isinstance(n.targets[0], ast.Name) and n.targets[0].id == ie.id]
        st_app = stmt_of(fn, apps[0])
        if len(defs) == 1 and pos(defs[0]) < pos(st_app) and not any(isinstance(x, ast.Call) and isinstance(x.func, ast.Attribute) and x.func.attr == "append" and pos(defs[0]) < pos(x) < pos(st_app)
                                                                  for x in walk_shallow(fn)):
            ie = defs[0].value
    idx = " ".join(u(ie).split())
    good = idx in ("len(value) + len(parameters)", "len(parameters) + len(value)")
    if not good and isinstance(ie, ast.BinOp) and isinstance(ie.op, ast.Add):
        # row-major arithmetic: <row index> * <row length> + <column index>, indices from enumerate() over the rows / the entries of a row
        mul, col = (ie.left, ie.right) if isinstance(ie.left, ast.BinOp) else (ie.right, ie.left)
        if isinstance(mul, ast.BinOp) and isinstance(mul.op, ast.Mult) and isinstance(col, ast.Name):
            encl = [l for l in walk_shallow(fn) if isinstance(l, ast.For) and any(x is apps[0] for x in ast.walk(l))]
            encl.sort(key=pos)
            enum = {}
            for depth_, l in enumerate(encl):
                if isinstance(l.iter, ast.Call) and u(l.iter.func) == "enumerate" and isinstance(l.target, ast.Tuple) and len(l.target.elts) == 2 and isinstance(l.target.elts[0], ast.Name):
                    enum[l.target.elts[0].id] = (depth_, l)
            for rname, stride in ((mul.left, mul.right), (mul.right, mul.left)):
                if isinstance(rname, ast.Name) and rname.id in enum and col.id in enum and enum[rname.id][0] < enum[col.id][0]:
                    inner = enum[col.id][1]
                    full_row = " ".join(u(inner.iter.args[0]).split()).endswith(".expression()") if inner.iter.args else False
                    st_txt = resolved_text(fn, stride, stmt_of(fn, apps[0]))
                    rows_txt = resolved_text(fn, enum[rname.id][1].iter.args[0], enum[rname.id][1]) if enum[rname.id][1].iter.args else "?"
                    is_rowcount = st_txt in ("len(%s)" % rows_txt, "len(%s)" % u(enum[rname.id][1].iter.args[0])) or st_txt.startswith("len([") and "ArrayrowContext" in st_txt
                    is_rowlen = ".expression())" in st_txt and st_txt.startswith("len(") or "row_lengths" in st_txt
                    if is_rowcount and not is_rowlen:
                        rep.bad(R, ix.site(f, apps[0]), "the recorded position of a parameter is its row-major index: row * (entries per row) + column",
                                "records `%s`: the stride `%s` is the number of rows, not the length of a row - wrong for every non-square array" % (idx, st_txt[:60]), key="index")
                        return
                    if is_rowlen and full_row:
                        good = True
    if not good and idx not in ("len(value)", "len(parameters)"):
        raise Inconclusive("exitArrayvar: parameter index `%s` outside the idiom set" % idx)
    rep.check(good, R, ix.site(f, apps[0]), "the recorded position is len(value) + len(parameters)", "records `%s`: from the second parameter on every parameter lands too early" % idx, key="index")
    ins = [n for n in walk_shallow(fn) if isinstance(n, ast.Call) and u(n.func) == "np.insert"]
    okins = False
    for c in ins:
        loops = [l for l in walk_shallow(fn) if isinstance(l, ast.For) and any(x is c for x in ast.walk(l))]
        if loops and u(loops[-1].iter) == "parameters" and len(c.args) == 3:
            t = loops[-1].target
            if isinstance(t, ast.Name):
                okins = okins or (u(c.args[1]) == "%s[0]" % t.id and u(c.args[2]) == "%s[1]" % t.id)
            elif isinstance(t, ast.Tuple) and len(t.elts) == 2 and all(isinstance(e, ast.Name) for e in t.elts):
                okins = okins or (u(c.args[1]) == t.elts[0].id and u(c.args[2]) == t.elts[1].id)      # `for position, symbol in parameters`
    rep.check(okins, R, ix.site(f, ins[0]) if ins else ix.site(f), "parameters are inserted in recording order with np.insert(array, position, symbol) before the reshape", key="insert")


def aliasing_lint(rep, ix):
    R = "C05.6"
    rep.rule(R, "no nested list is built by list repetition (`[[x] * c] * r` makes every row the same object)", floor=1)
    n = 0
    for q, f in sorted(ix.funcs.items()):
        if f.mod not in ("listener", "auxiliary", "program"):
            continue
        for b in ast.walk(f.node):
            if isinstance(b, ast.BinOp) and isinstance(b.op, ast.Mult):
                for side in (b.left, b.right):
                    if isinstance(side, ast.List) and any(isinstance(e, (ast.List, ast.Dict, ast.Set, ast.ListComp)) or (isinstance(e, ast.BinOp) and isinstance(e.op, ast.Mult) and
                                                          any(isinstance(x, ast.List) for x in (e.left, e.right))) for e in side.elts):
                        n += 1
                        rep.bad(R, ix.site(f, b), "`%s` does not alias its rows" % " ".join(u(b).split())[:60], "list repetition copies references: all rows are one list", key="%s|%s" % (q, u(b)[:60]))
    if n == 0:
        rep.ok(R, "listener/auxiliary/program", "no list-repetition of nested mutable lists")
    for q, f in sorted(ix.funcs.items()):
        if f.mod not in ("listener", "auxiliary", "program"):
            continue
        for c in ast.walk(f.node):
            if isinstance(c, ast.Call):
                for k in c.keywords:
                    if k.arg == "order" and not (isinstance(k.value, ast.Constant) and k.value.value in ("C", None)):
                        rep.bad(R, ix.site(f, c), "`%s` traverses arrays in row-major (C) order" % " ".join(u(c).split())[:60], "order=%s: element order depends on memory layout / is column-major" % u(k.value),
                                key="%s|order|%s" % (q, u(k.value)))


def shared_tables(rep, ix, G):
    """variables and array elements are read from tables that hold only this load's data (shared with C12)"""
    from . import c12
    E = common.eff(rep)
    gen = gm.class_tables(gm.read(gm.FILES["py_listener"], rep), "blackbirdListener")
    tables = c12.inventory(rep, E, ix)
    c12.c12_2(rep, ix, G, tables, {n.name for n in gen["cls"].body if isinstance(n, ast.FunctionDef)})
