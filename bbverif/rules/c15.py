"""C15 - TDM programs pass p-arrays by name and keep their data (SIB, GRD, EFF, T; DESIGN 5/C15)."""
import ast

from ..report import Inconclusive
from ..gram import model as gm
from ..py.guards import AEval, Reach, ModelError, always_raises, resolved_text, stmt_of, path_to
from ..py.index import u, walk_shallow, pos
from . import common

STRINGS = ["p0", "p12", "p", "", "p0_shift", "p1_0", "p1b", "q0", "P0", "0p", "pp1", "p-1", "p 1", "ap0", "p007", "hello"]
ARRAY = "listener.BlackbirdListener.exitArrayvar"
EVAL = "auxiliary._expression"
SER = "program.BlackbirdProgram.serialize"


def is_p(s):
    return len(s) >= 2 and s[0] == "p" and s[1:].isdigit() and s[1:].isascii()


def run(rep, tier):
    rep.trust(*common.PY_TRUST)
    ix = common.index(rep)
    M = gm.Model(rep)
    common.guarded(rep, "C15.1", c15_1, rep, ix)
    common.guarded(rep, "C15.2", c15_2, rep, ix)
    from . import c04, c08
    common.guarded(rep, "C04.5", c04.c04_5, rep, ix, M.G)       # p-names filtered out of the published parameters
    common.guarded(rep, "C15.3", c15_3, rep, ix)
    from . import tser, c05
    common.guarded(rep, "C15.4", tser.c15_4, rep, ix, M)
    # array arguments that are not p-arrays are passed by value: one fresh hoisted declaration per array value (shared with C01.5)
    from ..py.templates import Lang
    rep.rule("C15.5", "array values are hoisted into declarations of their own (never replaced by a reference to another variable)", floor=5)
    common.guarded(rep, "C15.5", tser.arrays, rep, "C15.5", ix, M, Lang(M.G))
    c05.shared_tables(rep, ix, M.G)


def pkg_globals_atom(ix, mod):
    g = ix.module_globals(mod, follow=True)

    def atom(node):
        if isinstance(node, ast.Name) and node.id in g and isinstance(g[node.id], ast.Call) and u(g[node.id].func) == "re.compile" and g[node.id].args and isinstance(g[node.id].args[0], ast.Constant):
            return ("PATTERN", g[node.id].args[0].value)
        return AEval.NO
    return atom


def eval_pred(ix, mod, expr, binding, depth=0, fn=None):
    """evaluate a predicate expression with names bound per `binding` (name -> value); single-return package helpers are inlined;
    single-assignment locals of `fn` are looked through"""
    ga = pkg_globals_atom(ix, mod)
    from ..py.guards import single_assignments
    alias = single_assignments(fn) if fn is not None else {}

    def atom(node):
        if isinstance(node, ast.Name) and node.id in binding:
            return binding[node.id]
        if isinstance(node, ast.Name) and node.id in alias and depth < 3:
            return eval_pred(ix, mod, alias[node.id], binding, depth + 1, fn) if not isinstance(alias[node.id], ast.Constant) else alias[node.id].value
        for k, v in binding.items():
            if not k.isidentifier() and u(node) == k:
                return v
        if isinstance(node, ast.Call) and isinstance(node.func, ast.Attribute) and isinstance(node.func.value, ast.Name) and node.func.value.id == "self" and depth < 3:
            cands = [k for k, g in ix.funcs.items() if g.cls and g.name == node.func.attr and g.mod == mod]
            if len(cands) == 1:
                g = ix.funcs[cands[0]]
                body = [s for s in g.node.body if not (isinstance(s, ast.Expr) and isinstance(s.value, ast.Constant))]
                params = [p_ for p_ in g.params if p_ != "self"]
                binds = {}
                ok_body = True
                for s_ in body[:-1]:
                    if isinstance(s_, ast.Assign) and len(s_.targets) == 1 and isinstance(s_.targets[0], ast.Name):
                        binds[s_.targets[0].id] = s_.value
                    else:
                        ok_body = False
                if ok_body and body and isinstance(body[-1], ast.Return) and len(node.args) == len(params):
                    args = [AEval(atom).ev(a) for a in node.args]
                    b2 = dict(binding)
                    b2.update(dict(zip(params, args)))
                    for nm, ex_ in binds.items():
                        b2[nm] = eval_pred_value(ix, g.mod, ex_, b2, depth + 1)
                    return eval_pred_value(ix, g.mod, body[-1].value, b2, depth + 1)
        if isinstance(node, ast.Call) and isinstance(node.func, ast.Name) and depth < 3:
            q = ix.resolve_name(mod, node.func.id)
            if q in ix.funcs:
                f = ix.funcs[q]
                from ..py import norm as _norm
                value = _norm.as_expression(f.node.body)
                if value is not None and len(node.args) == len(f.params):
                    args = [AEval(atom).ev(a) for a in node.args]
                    return eval_pred(ix, f.mod, value, dict(zip(f.params, args)), depth + 1)
        return ga(node)
    ev = AEval(atom)
    if getattr(eval_pred, "_value_mode", False):
        return ev.ev(expr)
    return ev.truth(ev.ev(expr))


def eval_pred_value(ix, mod, expr, binding, depth=0):
    old = getattr(eval_pred, "_value_mode", False)
    eval_pred._value_mode = True
    try:
        return eval_pred(ix, mod, expr, binding, depth)
    finally:
        eval_pred._value_mode = old


def c15_1(rep, ix, predicate_only=False):
    R = "C15.1"
    rep.rule(R, "the p-type predicate (first character 'p', remainder decimal digits) is the same in the listener and in both inline copies of the serialiser, where it also requires the program type tdm; "
                "decided by evaluating each predicate on a fixed list of model strings", floor=(len(STRINGS) - 1) if predicate_only else 3 * len(STRINGS))
    f = ix.func("listener.is_ptype")
    from ..py import norm as _norm
    value = _norm.as_expression(f.node.body)
    for s in STRINGS:
        if not s:
            continue
        try:
            if value is not None:
                got = eval_pred(ix, f.mod, value, {f.params[0]: s})
            else:
                # a predicate written with statements (early returns, try / except around a conversion): interpreted on the model string
                from ..py.guards import run_block

                def atom(node, s=s):
                    return s if isinstance(node, ast.Name) and node.id == f.params[0] else AEval.NO
                r = run_block(f.node.body, atom)
                got = bool(r[1]) if r[0] == "return" else ("raises " + "/".join(sorted(r[1])) if r[0] == "raise" else False)
        except ModelError as e:
            got = "raises " + str(e)
        rep.check(got == is_p(s), R, ix.site(f), "is_ptype(%r) is %s" % (s, is_p(s)), "evaluates to %s" % got, key="is_ptype|" + s)
    if predicate_only:
        return          # properties of the loader consult the listener's predicate only; the serialiser's copies belong to C01 / C09 / C15
    # serialiser copies
    sf = ix.func(SER)
    fn = sf.node
    sites = []
    for n in walk_shallow(fn):
        if isinstance(n, ast.If) and isinstance(n.test, ast.Call) and u(n.test.func) == "isinstance" and u(n.test.args[1]) == "str" and len(n.test.args) == 2:
            var = u(n.test.args[0])
            inner = [s for s in n.body if isinstance(s, ast.If)]
            if len(inner) == 1 and len(n.body) == 1:
                # which arm writes the value without quotes?
                def quoted(stmts, var=var):
                    # some string built in these statements puts the value between double quotes (any spelling of the formatting)
                    from ..py import norm
                    for x in stmts:
                        for e in ast.walk(x):
                            t = norm.canon_text(e) if isinstance(e, (ast.JoinedStr, ast.Call, ast.BinOp, ast.Constant)) else None
                            if t is not None and '"{%s}"' % var in t:
                                return True
                    return False
                if quoted(inner[0].orelse) and not quoted(inner[0].body):
                    sites.append((n, inner[0], var))
                elif quoted(inner[0].body) and not quoted(inner[0].orelse) and inner[0].orelse:
                    # the same decision written the other way round: `if <not a p-name>: quoted else: bare`
                    neg = ast.If(test=ast.UnaryOp(op=ast.Not(), operand=inner[0].test), body=inner[0].orelse, orelse=inner[0].body)
                    ast.copy_location(neg, inner[0])
                    ast.fix_missing_locations(neg)
                    sites.append((n, neg, var))
    slots = 0
    for outer, test_if, var in sites:
        if "_var" in u(outer) and "array" in u(outer):
            continue
        slots += 1
        for tdm in (True, False):
            for s in STRINGS:
                # the empty string is an argument like any other ('""' is a STR token): it must be written quoted, not raise
                binding = {var: s, "self.programtype['name']": "tdm" if tdm else "other", 'self.programtype["name"]': "tdm" if tdm else "other", "self._type['name']": "tdm" if tdm else "other"}
                try:
                    got = eval_pred(ix, "program", test_if.test, binding, fn=fn)
                except ModelError as e:
                    got = "raises " + str(e)
                want = tdm and is_p(s)
                rep.check(got == want, R, ix.site(sf, test_if), "serialiser: the string %r in a %s program is written %s" % (s, "tdm" if tdm else "non-tdm", "as a bare name" if want else "quoted"),
                          "unquoted-test evaluates to %s" % got, key="ser|%d|%s|%s" % (slots, tdm, s))
    rep.check(slots >= 2, R, ix.site(sf), "both the positional and the keyword string branch carry the p-type test", "found %d" % slots, key="ser slots")
    # every site that asks "is this a tdm program?" gives the same answer for every spelling of the type name
    from .c07 import resolve
    tests = []
    lf = ix.func(ARRAY)
    for n in walk_shallow(lf.node):
        if isinstance(n, ast.If) and "is_ptype(" in u(n.test) and "tdm" in u(n.test):
            tests.append((lf, n.test, "registration in exitArrayvar", {"is_ptype(name)": True}))
    for n in fn.body:
        if isinstance(n, ast.If) and "tdm" in " ".join(u(resolve(fn, n.test)).split()) and "isinstance" not in u(n.test):
            tests.append((sf, resolve(fn, n.test), "variable section of serialize", {}))
    for outer, test_if, var in sites:
        tests.append((sf, test_if.test, "string argument in serialize", {var: "p0"}))
    table = {}
    for tn in ("tdm", "TDM", "Tdm", "other"):
        for g, t, what, extra in tests:
            b = {"self.programtype['name']": tn, 'self.programtype["name"]': tn, "self._program._type['name']": tn, 'self._program._type["name"]': tn, "self._type['name']": tn, "name": "p0"}
            b.update(extra)
            try:
                def atom_extra(expr_=t, b_=b, g_=g):
                    return eval_pred(ix, g_.mod, expr_, dict(b_, **{"is_ptype": None}), fn=g_.node)
                v = bool(atom_extra())
            except Exception as e_:
                v = "undecided: %s" % e_
            table.setdefault(tn, []).append((what, v))
    for tn, rows in table.items():
        vals = {v for _, v in rows}
        rep.check(len(vals) == 1 and not any(isinstance(v, str) for v in vals), R, ix.site(sf), "all %d places that test for a tdm program agree for the type name %r" % (len(rows), tn),
                  "answers differ: %s" % rows, key="tdm agree|" + tn)


def c15_2(rep, ix):
    R = "C15.2"
    rep.rule(R, "a p-array name is registered iff the program type is tdm and the name is p-type, before the variable is stored; the evaluator returns the name exactly for registered names, after checking the stored value is an array",
             floor=6)
    f = ix.func(ARRAY)
    fn = f.node
    apps = [n for n in walk_shallow(fn) if isinstance(n, ast.Call) and u(n.func) == "_PARAMS.append" and n.args and resolved_text(fn, n.args[0], stmt_of(fn, n)) == "ctx.name().getText()"]
    if len(apps) != 1:
        raise Inconclusive("exitArrayvar: registration `_PARAMS.append(name)` not recognised")
    st = stmt_of(fn, apps[0])
    for tdm in (True, False):
        for s in ("p0", "p0_shift", "A", "p"):
            def atom(node, tdm=tdm, s=s):
                txt = u(node)
                if txt in ("self._program._type['name']", 'self._program._type["name"]', "self._program.programtype['name']"):
                    return "tdm" if tdm else "other"
                if isinstance(node, ast.Call) and u(node.func) == "is_ptype":
                    return is_p(s)
                if isinstance(node, ast.Name) and node.id == "name":
                    return s
                return AEval.NO
            fake = ast.FunctionDef(name="_", args=fn.args, body=fn.body[fn.body.index(path_to(fn.body, st)[0][0][path_to(fn.body, st)[0][1]]):], decorator_list=[])
            r = Reach(fake, st, aliases=False).may_reach(atom)
            want = tdm and is_p(s)
            rep.check(r == want, R, ix.site(f, st), "array %r in a %s program is %s" % (s, "tdm" if tdm else "non-tdm", "registered as a p-array" if want else "not registered"), key="reg|%s|%s" % (tdm, s))
    stores = [n for n in walk_shallow(fn) if isinstance(n, ast.Assign) and isinstance(n.targets[0], ast.Subscript) and u(n.targets[0].value) == "_VAR"]
    rep.check(len(stores) == 1 and stores[0] in fn.body and pos(st) < pos(stores[0]), R, ix.site(f, stores[0]) if stores else ix.site(f),
              "the array is stored in the variable table unconditionally, after the registration", key="store after")
    # evaluator
    e = ix.func(EVAL)
    en = e.node
    tests = [n for n in walk_shallow(en) if isinstance(n, ast.If) and isinstance(n.test, ast.Compare) and len(n.test.ops) == 1 and isinstance(n.test.ops[0], (ast.In, ast.NotIn))
             and u(n.test.comparators[0]) == "_PARAMS"]
    if len(tests) != 1:
        # a membership test against something derived from _PARAMS (e.g. their names) is a different predicate
        derived = [n for n in walk_shallow(en) if isinstance(n, ast.If) and "_PARAMS" in u(n.test)]
        branch = [n for n in walk_shallow(en) if isinstance(n, ast.If) and "VariableLabelContext" in u(n.test)]
        rep.bad(R, ix.site(e, derived[0] if derived else (branch[0] if branch else en)),
                "the evaluator tests `<name> in _PARAMS` on the parameter table itself (string names are only equal to registered p-array names, never to parameter symbols)",
                ("tests `%s`: a variable named like a template parameter is treated as a p-array" % " ".join(u(derived[0].test).split())) if derived else
                "no direct membership test on the table: registration and lookup can get out of step (stale or derived copies)", key="eval test")
        return
    t = tests[0]
    key = resolved_text(en, t.test.left, t)
    rep.check(key == "expr.getText()", R, ix.site(e, t), "the tested key is the variable's own text (a str)", "key `%s`" % key, key="eval key")
    body = t.body
    negated = isinstance(t.test.ops[0], ast.NotIn)
    if negated:
        # guard-clause form: `if name not in _PARAMS: return _VAR[name]` - the registered-name case is what follows the guard
        from ..py.guards import path_to as _path_to
        blk = None
        for (stmts_, i_, field_) in _path_to(en.body, t) or []:
            if stmts_[i_] is t:
                blk = stmts_[i_ + 1:]
        if not (t.body and isinstance(t.body[-1], (ast.Return, ast.Raise)) and not t.orelse and blk is not None):
            raise Inconclusive("_expression: negated p-array test is not a guard clause")
        body = blk
    ret = [s for s in body if isinstance(s, ast.Return)]
    okret = len(ret) == 1 and resolved_text(en, ret[0].value, ret[0]) == "expr.getText()"
    rep.check(okret, R, ix.site(e, t), "for a registered name the evaluator returns the name itself", key="eval return")
    chk = [s for s in body if isinstance(s, ast.If) and always_raises(s.body) and "np.ndarray" in u(s.test) and "_VAR[" in resolved_text(en, s.test, s) and u(s.test).startswith("not isinstance")]
    rep.check(len(chk) == 1 and ret and pos(chk[0]) < pos(ret[0]), R, ix.site(e, t), "before returning the name the stored value is checked to be an array (TypeError otherwise)", key="eval array check")
    # the test sits after the undefined-name check and before the plain value return
    plain = [s for s in walk_shallow(en) if isinstance(s, ast.Return) and resolved_text(en, s.value, s) == "_VAR[expr.getText()]"]
    rep.check(plain and (pos(t) < pos(plain[0])), R, ix.site(e, t), "other variables are returned by value after the p-array test", key="eval order")


def registration_exact(fn, st):
    """the statement is reached iff (program type is tdm) and (the declared name is a p-name), for every truth value of the other names its
    guards mention: decided with guards.Reach on the 2 x 2 models times the valuations of the remaining guard names"""
    import itertools
    from ..py.guards import Reach, path_to
    path = path_to(fn.body, st) or []
    tests = [stmts[i].test for (stmts, i, field) in path if isinstance(stmts[i], ast.If)]
    for (stmts, i, field) in path:
        for s_ in stmts[:i]:
            if isinstance(s_, ast.If):
                tests.append(s_.test)
    free = set()
    for t in tests:
        covered = set()
        for n in ast.walk(t):
            if isinstance(n, ast.Call) and "is_ptype" in u(n.func):
                covered |= {id(x) for x in ast.walk(n)}
            if isinstance(n, ast.Subscript) and "type" in u(n.value).lower() and isinstance(n.slice, ast.Constant) and n.slice.value == "name":
                covered |= {id(x) for x in ast.walk(n)}
        for n in ast.walk(t):
            if isinstance(n, ast.Name) and id(n) not in covered and n.id not in ("self", "ctx", "isinstance", "len", "np", "str", "any", "all", "bool"):
                free.add(n.id)
    free = sorted(free)[:4]
    wrong = []
    for tdm, isp in itertools.product((True, False), repeat=2):
        for vals in itertools.product(((), (1,)), repeat=len(free)):
            env = dict(zip(free, vals))

            def atom(node, tdm=tdm, isp=isp, env=env):
                if isinstance(node, ast.Call) and "is_ptype" in u(node.func):
                    return isp
                if isinstance(node, ast.Subscript) and "type" in u(node.value).lower() and isinstance(node.slice, ast.Constant) and node.slice.value == "name":
                    return "tdm" if tdm else "other"
                if isinstance(node, ast.Name) and node.id in env:
                    return env[node.id]
                return AEval.NO
            r_ = Reach(fn, st)
            got = r_.may_reach(atom)
            want = tdm and isp
            if got and not want:
                # reachable: only a verdict if the enclosing guards are decided (what precedes them may be undecidable and is irrelevant here)
                enclosing = [r_.test(stmts[i].test, atom) if field == "body" else (None if r_.test(stmts[i].test, atom) is None else not r_.test(stmts[i].test, atom))
                             for (stmts, i, field) in path if isinstance(stmts[i], ast.If) and field in ("body", "orelse")]
                if any(x is None for x in enclosing):
                    continue
            if got != want:
                wrong.append("for a %s program, a name that is %sa p-name and %s it is %sreached" % (
                    "tdm" if tdm else "non-tdm", "" if isp else "not ", ", ".join("%s %s" % (k, "non-empty" if v else "empty") for k, v in env.items()) or "no other condition", "" if got else "not "))
    return wrong


def c15_3(rep, ix):
    R = "C15.3"
    rep.rule(R, "every writer of the parameter table is one of the recognised kinds: append of a parameter-derived symbol or of a p-array name under the tdm/p-type guard, expansion of a whole-array "
                "parameter (extend with its element symbols, remove of the array-level symbol), clear", floor=5)
    from .c08 import in_param_array_branch, guarded_by_ptype
    E = common.eff(rep)
    n = 0
    for q, evs in sorted(E.events.items()):
        if q in getattr(ix, "absorbed", ()):
            continue            # a private helper read into all of its callers: judged there, in context
        f = ix.funcs[q]
        for e in evs:
            if "GLOBAL:auxiliary._PARAMS" not in e.target.self_o or e.via is not None:
                continue
            n += 1
            node = e.node
            txt = " ".join(u(node).split())
            ok = False
            why = "unrecognised kind of write"
            if isinstance(node, ast.Call) and isinstance(node.func, ast.Attribute) and u(node.func.value) == "_PARAMS":
                st = stmt_of(f.node, node)
                a = node.func.attr
                arg = node.args[-1] if node.args else None
                rt = resolved_text(f.node, arg, st) if arg is not None else ""
                if a == "clear" and not node.args:
                    ok = True
                elif a == "append":
                    ok = ".parameter().NAME().getText()" in rt or guarded_by_ptype(f.node, st)
                    why = "appends `%s`" % rt[:60]
                    if ok and ".parameter().NAME().getText()" not in rt:
                        wrong = registration_exact(f.node, st)
                        if wrong:
                            ok = False
                            why = "the name is registered exactly when the program is a tdm program and the name is a p-name, whatever else holds; but %s" % "; ".join(wrong[:2])
                    if ok and ".parameter().NAME().getText()" not in rt and q != ARRAY and ix.funcs[q].qual in ix.known:
                        # a name (string) is registered: only array declarations are passed by name; a scalar `float p2 = 0.7` is a value
                        ok = False
                        why = "registers the name `%s` as a p-array outside the array declaration handler (a scalar named like a p-array is then refused / passed by name)" % rt[:40]
                elif a == "extend":
                    from .c08 import is_symbol_grid
                    ok = in_param_array_branch(f.node, st) and arg is not None and is_symbol_grid(f.node, st, arg)
                    why = "extends with `%s` outside the whole-array expansion" % rt[:60]
                elif a == "remove":
                    ok = in_param_array_branch(f.node, st) and rt.startswith("parameters[0][1]") or u(arg) == "parameters[0][1]"
                    why = "removes `%s`" % rt[:60]
            rep.check(ok, R, ix.site(f, node), "`%s` is a recognised writer of the parameter table" % txt[:80],
                      "%s: p-array names (strings) and parameter symbols share this table; a rewrite can drop or duplicate either" % why, key="%s|%s" % (q, txt[:80]))
    if n < 5:
        raise Inconclusive("fewer writers of _PARAMS found than confirmed by hand (%d)" % n)
