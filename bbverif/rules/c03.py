"""C03 - expressions evaluate to their arithmetic value under the grammar's precedence (G, A/K, EXH, operator terms; DESIGN 5/C03)."""
import ast

from ..report import Inconclusive
from ..gram import model as gm
from ..gram.g4 import Lit, Ref, Alt, Seq
from ..py.ctxtypes import ContextClasses
from ..py.guards import AEval, KINDS, COMPLEX_KINDS, always_raises
from ..py.index import u, walk_shallow
from ..py.terms import TermEval, show, definite, casts_operand
from . import c14, common

EVAL, FUNC, NUM = "auxiliary._expression", "auxiliary._func", "auxiliary._number"
E0, E1 = ("eval", ("child", 0)), ("eval", ("child", 1))
OPS = {"+": "add", "-": "sub", "*": "mul", "/": "div", "**": "pow"}
INTEGRAL = ("PyInt", "PyBool", "NpInt")


def run(rep, tier):
    rep.trust(*common.PY_TRUST)
    rep.trust(*c14.TRUST)
    rep.trust("library model: np.sum([x,y],axis=0) = x+y, np.prod([x,y],axis=0) = x*y, np.power = ** (integer kinds stay integer; np.power(int kind, -1) raises), "
              "np.reciprocal of an integer kind is integer division; np.<f> for the fifteen function names is the elementary function f; int/float/complex parse the INT/FLOAT/COMPLEX token text")
    M = gm.Model(rep)
    ix = common.index(rep)
    cc = ContextClasses(M.src["py_parser"])
    c03_1(rep, M)
    # the precedence numbers live in the generated rule method too: its code must agree with the automaton (K1, K1b)
    from . import c14_k1
    c14_k1.k1(rep, M)
    common.guarded(rep, "C14.K1b", c14_k1.k1b, rep, M)
    branches = common.guarded(rep, "C03.2", c03_2, rep, ix, M)
    if branches:
        common.guarded(rep, "C03.3", c03_3, rep, ix, M, cc, branches)
        common.guarded(rep, "C03.8", c03_8, rep, ix, M, cc, branches)
        common.guarded(rep, "C03.9", c03_9, rep, ix, M, cc, branches)
    common.guarded(rep, "C03.4", c03_4, rep, ix, M)
    common.guarded(rep, "C03.5", c03_5, rep, ix, M)
    from . import c05
    c05.shared_tables(rep, ix, M.G)
    # operands: a variable enters an expression with the value stored by its declaration, so the declared type of that value
    # (int vs float elements behave differently under ** and /) is part of the arithmetic value
    common.guarded(rep, "C05.2", c05.c05_2, rep, ix)
    common.guarded(rep, "C05.8", c05.c05_8, rep, ix)        # A[k] is the value of the k-th written element expression
    common.guarded(rep, "C05.3", c05.c05_3, rep, ix)
    # ... and the value delivered for a written expression is the evaluator's result for it, unmodified and always computed by the evaluator
    from . import c02
    common.guarded(rep, "C02.3", c02.c02_3, rep, ix, M)
    from . import c18_py
    common.guarded(rep, "C18.5", c18_py.c18_5, rep, ix)      # the value of an expression does not depend on where in the tree / the text it stands


# ------------------------------------------------------------------------------------------- C03.1 precedence / associativity
def c03_1(rep, M):
    R = "C03.1"
    rep.rule(R, "the precedence table executed by the parser is brackets > unary sign > ** (right-assoc) > * / (left) > + - (left); grammar, ATN and generated code agree", floor=7)
    G = M.G
    c14.a1(rep, M)
    c14.a3(rep, M)
    c14.a5(rep, M)
    rule = G.R["expression"]
    _, _, table = gm.left_recursive_rewrite(rule)
    by = {t["label"]: t for t in table}
    rep.extra["precedence_table"] = [{k: (v if k != "ops" else [getattr(x, "name", str(x)) for x in v]) for k, v in t.items()} for t in table]

    def toks(t):
        out = []
        for it in t["ops"]:
            if isinstance(it, Ref):
                out.append(it.name)
            elif isinstance(it, Alt):
                out += [x.name for a in it.alts for x in a.items if isinstance(x, Ref)]
        return sorted(G.literal_of(x) or x for x in out)

    need = ("SignLabel", "PowerLabel", "MulLabel", "AddLabel", "BracketsLabel")
    if any(l not in by for l in need):
        rep.bad(R, "blackbird.g4 expression", "expression has the labelled alternatives %s" % (need,), "labels %s" % sorted(by), key="labels")
        return
    s, p, m, a, b = (by[l] for l in need)
    rep.check(s["kind"] == "prefix" and toks(s) == ["+", "-"], R, "blackbird.g4 expression#SignLabel", "unary sign is a prefix operator over {+, -}", "%s %s" % (s["kind"], toks(s)))
    rep.check(p["kind"] == "binary" and toks(p) == ["**"] and p["right"], R, "blackbird.g4 expression#PowerLabel", "** is binary and right-associative", "kind %s right=%s ops %s" % (p["kind"], p["right"], toks(p)), key="power assoc")
    rep.check(m["kind"] == "binary" and toks(m) == ["*", "/"] and not m["right"], R, "blackbird.g4 expression#MulLabel", "* and / are binary, left-associative", key="mul")
    rep.check(a["kind"] == "binary" and toks(a) == ["+", "-"] and not a["right"], R, "blackbird.g4 expression#AddLabel", "+ and - are binary, left-associative", key="add")
    rep.check(s["prec"] > p["prec"] > m["prec"] > a["prec"], R, "blackbird.g4 expression", "binding order sign > ** > */ > +-", "precedences sign=%d pow=%d mul=%d add=%d" % (s["prec"], p["prec"], m["prec"], a["prec"]), key="order")
    rep.check(b["kind"] == "primary", R, "blackbird.g4 expression#BracketsLabel", "a bracketed expression is a primary", key="brackets")
    rep.check(p["rhs"] == p["prec"] and m["rhs"] == m["prec"] + 1 and a["rhs"] == a["prec"] + 1, R, "blackbird.g4 expression", "right operand precedences: ** re-enters at its own level (right), */ and +- one level higher (left)", key="rhs")


# ------------------------------------------------------------------------------------------- C03.2 dispatch exhaustive
def c03_2(rep, ix, M):
    R = "C03.2"
    G = M.G
    labels = G.labels("expression")
    rep.rule(R, "_expression has one branch per labelled alternative of the grammar rule `expression`", floor=len(labels))
    f = ix.func(EVAL)
    fn = f.node
    arg = f.params[0]
    branches = {}
    # the dispatch may stand inside a wrapper that encloses the whole body (try / with): the branches are looked for in the innermost such block
    block = [s for s in fn.body if not (isinstance(s, ast.Expr) and isinstance(s.value, ast.Constant))]
    while len(block) == 1 and isinstance(block[0], (ast.Try, ast.With)):
        block = list(block[0].body)
    for s in block:
        if isinstance(s, ast.If) and isinstance(s.test, ast.Call) and u(s.test.func) == "isinstance" and u(s.test.args[0]) == arg:
            cls = s.test.args[1]
            names = cls.elts if isinstance(cls, ast.Tuple) else [cls]
            for n in names:
                nm = u(n).split(".")[-1]
                if nm.endswith("Context"):
                    branches[nm[:-7]] = s
    if not branches:
        # e.g. a dispatch table {Context class: handler} or a match statement: outside the idiom set of this rule
        raise Inconclusive("_expression: no isinstance(expr, blackbirdParser.<Label>Context) branches found (dispatch idiom not recognised)")
    for l in labels:
        rep.check(l in branches, R, ix.site(f, branches.get(l, fn)), "_expression handles the alternative #%s" % l, "no isinstance(expr, blackbirdParser.%sContext) branch" % l, key="label|" + l)
    extra = sorted(set(branches) - set(labels))
    rep.check(not extra, R, ix.site(f), "_expression has no branch for a non-existent alternative", "extra %s" % extra, key="extra")
    return branches


def alt_tokens(G, label):
    alt = dict(zip(G.R["expression"].body.labels, G.R["expression"].body.alts))[label]
    out = []
    for it in alt.items:
        if isinstance(it, Ref) and it.name in G.ttype:
            out.append([it.name])
        elif isinstance(it, Alt):
            out.append([x.name for a in it.alts for x in a.items if isinstance(x, Ref) and x.name in G.ttype])
    return out


def single_accessors(cc, label):
    c = cc.classes.get(label + "Context", {"acc": {}})
    return {n for n, a in c["acc"].items() if a.multi == "single"}


def token_paths(paths, arg):
    """map token name -> list of outcome terms for paths whose conditions are `<arg>.<TOK>()` tests"""
    out = {}
    for conds, t, env in paths:
        pos = [c for c, v in conds if v]
        toks = []
        for c in pos:
            if c.startswith(arg + ".") and c.endswith("()"):
                toks.append(c[len(arg) + 1:-2])
            elif c.startswith(arg + ".") and c.endswith("() is not None"):
                toks.append(c[len(arg) + 1:-14])
        out.setdefault(tuple(toks), []).append((conds, t))
    return out


# ------------------------------------------------------------------------------------------- C03.3 / .6 / .7 operator table
def c03_3(rep, ix, M, cc, branches):
    R = "C03.3"
    rep.rule(R, "each arithmetic branch computes the specified operator on the first and second child expressions in grammar order: + -> add, - -> sub, * -> mul, / -> true division "
                "(defined for every divisor kind), ** -> pow, unary - -> neg, unary + and brackets -> identity; operands are the evaluated children themselves (no casts: integers stay integers)",
             floor=8)
    G = M.G
    f = ix.func(EVAL)
    arg = f.params[0]
    spec = {}
    for label, kind in (("AddLabel", "bin"), ("MulLabel", "bin"), ("PowerLabel", "bin"), ("SignLabel", "un"), ("BracketsLabel", "id")):
        groups = alt_tokens(G, label)
        ops = [t for g in groups for t in g if (G.literal_of(t) or "") in OPS]
        spec[label] = (kind, ops)
    def verdict(ok, site, text, got, key):
        """refute only terms the extractor fully understood (or that visibly cast an operand); anything else is an unknown idiom"""
        if ok:
            rep.ok(R, site, text)
        elif all(definite(t) or casts_operand(t) for t in got):
            rep.bad(R, site, text, "returns %s" % [show(t) for t in got], key=key)
        else:
            rep.unknown(R, site, text, "operator idiom outside the recognised set: %s" % [show(t) for t in got])

    for label, (kind, ops) in spec.items():
        if label not in branches:
            continue
        br = branches[label]
        te = TermEval(single_accessors(cc, label), ctxvar=arg)
        walks = [n for s_ in br.body for n in ast.walk(s_) if isinstance(n, (ast.While, ast.For))]
        rebinds = [n for s_ in br.body for n in ast.walk(s_) if isinstance(n, ast.Assign) and any(isinstance(t, ast.Name) and t.id == arg for t in n.targets)]
        # ... or hands its own context to a helper of the package that loops over / descends the tree
        for s_ in br.body:
            for c_ in ast.walk(s_):
                if isinstance(c_, ast.Call) and isinstance(c_.func, ast.Name) and any(isinstance(a_, ast.Name) and a_.id == arg for a_ in c_.args):
                    hq = ix.resolve_name(f.mod, c_.func.id)
                    h = ix.funcs.get(hq) if hq else None
                    if h is not None and h.qual != f.qual and any(isinstance(n, (ast.While, ast.For)) for n in ast.walk(getattr(h, "orig", None) or h.node)):
                        walks.append(c_)
        if walks or rebinds:
            w = (walks + rebinds)[0]
            rep.bad(R, ix.site(f, w), "#%s applies its operator to its own two children, each evaluated once (the grouping is the parse tree's)" % label,
                    "`%s`: the branch walks / re-groups a chain of operators, which changes rounding and overflow behaviour of a*b/c*d" % " ".join(u(w).split())[:60], key=label + "|regroup")
            continue
        try:
            paths = te.paths(br.body, {})
        except Inconclusive as e:
            rep.unknown(R, ix.site(f, br), "#%s computes the specified operator" % label, str(e))
            continue
        tp = token_paths(paths, arg)
        site = ix.site(f, br)
        if kind == "id":
            outs = [t for conds, t, env in paths]
            verdict(outs == [E0], site, "#%s returns the value of the bracketed expression" % label, outs, label)
            continue
        if label == "PowerLabel":
            outs = [t for conds, t, env in paths]
            verdict(outs == [("pow", E0, E1)], site, "#PowerLabel returns pow(E(child0), E(child1)) on every path", outs, label)
            continue
        for tok in ops:
            lit = G.literal_of(tok)
            got = [t for k, lst in tp.items() if k[-1:] == (tok,) for conds, t in lst]
            if len(got) != 1:
                rep.bad(R, site, "#%s handles the operator token %s ('%s') on exactly one path" % (label, tok, lit), "found %d paths" % len(got), key="%s|%s" % (label, tok))
                continue
            t = got[0]
            if kind == "un":
                want = E0 if lit == "+" else ("neg", E0)
                verdict(t == want, site, "#%s/%s returns %s" % (label, tok, show(want)), [t], "%s|%s" % (label, tok))
            elif lit != "/":
                want = (OPS[lit], E0, E1)
                verdict(t == want, site, "#%s/%s returns %s" % (label, tok, show(want)), [t], "%s|%s" % (label, tok))
            else:
                division(rep, R, site, label, tok, t)


def division(rep, R, site, label, tok, t):
    if t == ("div", E0, E1):
        rep.ok(R, site, "#%s/%s returns true division div(E(child0), E(child1)) (Python / NumPy true division is defined for every numeric divisor kind)" % (label, tok))
        return
    if isinstance(t, tuple) and t[0] == "mulinv" and t[1] == E0:
        x = t[2]
        prim = "np.power(x, -1)" if t[3] == "inv" else "np.reciprocal(x)"
        if x == E1:
            rep.bad(R, site, "#%s/%s: the divisor reaching %s is never an integer kind" % (label, tok, prim),
                    "integer kinds (int, bool, np.int64) reach the inverse unguarded: np.power(int, -1) raises / np.reciprocal(int) truncates", key="%s|%s|unguarded" % (label, tok))
            return
        if isinstance(x, tuple) and x[0] == "try" and x[2] == E1 and x[1] == ("cast", "float", E1):
            # float() is attempted for every divisor; whether it changes the value is a fact of the library model: ints and floats convert,
            # a Python complex and a SymPy expression raise TypeError (caught: the value stays), a NumPy complex scalar only warns and loses
            # its imaginary part
            rep.bad(R, site, "#%s/%s: a complex divisor is not pushed through float()" % (label, tok),
                    "`try: b = float(b) except %s: pass` converts whatever float() accepts; float(np.complex128) does not raise - it emits a ComplexWarning and drops the imaginary part, "
                    "so a computed complex divisor (2j*2) is divided by as its real part" % ", ".join(x[3]), key="%s|%s|trycast" % (label, tok))
            return
        if isinstance(x, tuple) and x[0] == "ite" and x[4] == E1 and x[3] == ("cast", "float", E1):
            guard, name = x[1], x[2]
            okall = True
            for kname, k in sorted(KINDS.items()):
                if kname in ("PyStr", "NdArray"):
                    continue
                def atom(node, k=k):
                    if isinstance(node, ast.Name) and node.id == name:
                        return k
                    return AEval.NO
                try:
                    g = bool(AEval(atom).truth(AEval(atom).ev(guard)))
                except Inconclusive as e:
                    rep.unknown(R, site, "guard `%s` on the divisor" % " ".join(u(guard).split()), str(e))
                    return
                if kname in INTEGRAL:
                    rep.check(g, R, site, "#%s/%s: an integer divisor of kind %s is cast to float before %s" % (label, tok, kname, prim),
                              "guard `%s` is false for %s: %s" % (" ".join(u(guard).split()), kname, "np.power(int, -1) raises ValueError" if t[3] == "inv" else "np.reciprocal(int) is integer division"),
                              key="%s|%s|%s" % (label, tok, kname))
                elif kname in COMPLEX_KINDS or kname == "Sym":
                    rep.check(not g, R, site, "#%s/%s: a %s divisor is not pushed through float()" % (label, tok, kname), "float() of it raises or drops the imaginary part", key="%s|%s|%s" % (label, tok, kname))
            return
    if definite(t) or casts_operand(t):
        rep.bad(R, site, "#%s/%s returns E(child0) / E(child1)" % (label, tok), "returns %s" % show(t), key="%s|%s" % (label, tok))
    else:
        rep.unknown(R, site, "#%s/%s returns E(child0) / E(child1)" % (label, tok), "division idiom outside the recognised set: %s" % show(t))


# ------------------------------------------------------------------------------------------- C03.8 indexing
def c03_8(rep, ix, M, cc, branches):
    R = "C03.8"
    rep.rule(R, "A[k] reads element k of the row-major flattening of the declared array", floor=1)
    f = ix.func(EVAL)
    arg = f.params[0]
    br = branches.get("ArrayIdxLabel")
    if br is None:
        return
    te = TermEval(single_accessors(cc, "ArrayIdxLabel"), ctxvar=arg)
    paths = [p for p in te.paths(br.body, {}) if p[1] not in ("RAISE",)]
    site = ix.site(f, br)
    if not paths:
        raise Inconclusive("ArrayIdxLabel branch has no value path")
    for n_, (conds, t, env) in enumerate(paths):
        ok = False
        if isinstance(t, tuple) and t[0] == "index" and t[2] == E0:
            b = t[1]
            if isinstance(b, tuple) and b[0] == "method" and b[2] in ("flatten", "ravel") and not b[3] and all(k == "order" and v in ("'C'", '"C"') for k, v in b[4]):
                src = b[1]
                ok = isinstance(src, tuple) and src[0] == "index" and src[1] == ("name", "_VAR")
        text = "#ArrayIdxLabel returns _VAR[<name>].flatten()[E(child0)] with C (row-major) order (the variable table's current entry) on every path"
        if ok:
            rep.ok(R, site, text)
        elif definite(t):
            rep.bad(R, site, text, "a path returns %s" % show(t), key="index|%d" % n_)
        else:
            rep.unknown(R, site, text, "returns %s" % show(t))


def c03_9(rep, ix, M, cc, branches):
    R = "C03.9"
    rep.rule(R, "a name in an expression evaluates to the value stored for it in the variable table (a measured register to its symbol, a registered p-array to its name); nothing else "
                "- no table of constants, defaults or caches - answers for a name", floor=1)
    f = ix.func(EVAL)
    arg = f.params[0]
    br = branches.get("VariableLabel")
    if br is None:
        raise Inconclusive("_expression: VariableLabel branch not recognised")
    te = TermEval(single_accessors(cc, "VariableLabel"), ctxvar=arg)
    paths = [p_ for p_ in te.paths(br.body, {}) if p_[1] not in ("RAISE", "FALL")]
    if not paths:
        raise Inconclusive("VariableLabel branch has no value path")
    text = ("method", ("name", arg), "getText", (), ())
    for n_, (conds, t, env) in enumerate(paths):
        shown = show(t)
        if isinstance(t, tuple) and t[0] == "index" and t[1] == ("name", "_VAR") and t[2] == text:
            kind = "the stored value"
        elif t == text:
            kind = "the name itself (p-array)"
        elif isinstance(t, tuple) and t[0] == "call" and str(t[1]).split(".")[-1] == "Symbol" and tuple(t[2]) == (text,):
            kind = "the symbol of a register"
        else:
            kind = None
        cond_txt = " and ".join(("" if v_ else "not ") + c_ for c_, v_ in conds)[:120]
        if kind:
            rep.ok(R, ix.site(f, br), "under `%s` the name evaluates to %s" % (cond_txt, kind))
        elif definite(t):
            rep.bad(R, ix.site(f, br), "a name evaluates to its table entry, its own text (p-array) or its register symbol", "under `%s` it evaluates to %s" % (cond_txt, shown), key="var|" + shown[:60])
        else:
            rep.unknown(R, ix.site(f, br), "a name evaluates to its table entry, its own text (p-array) or its register symbol", "under `%s` it evaluates to %s" % (cond_txt, shown))


# ------------------------------------------------------------------------------------------- C03.4 function table
def c03_4(rep, ix, M):
    R = "C03.4"
    G = M.G
    fr = G.R["function"]
    ftoks = [x.name for a in fr.body.alts for x in a.items if isinstance(x, Ref)]
    rep.rule(R, "for every function token F with literal text t, the branch guarded by function.F() applies np.t to the evaluated argument; unknown functions raise", floor=len(ftoks))
    f = ix.func(FUNC)
    fn = f.node
    p_fun, p_arg = f.params[0], f.params[1]
    te = TermEval(ctxvar="__none__")
    try:
        paths = te.paths(fn.body, {})
    except Inconclusive:
        paths = []
    tp = token_paths(paths, p_fun)
    if not any(k for k in tp):
        return function_table(rep, R, ix, f, G, ftoks)
    for tok in ftoks:
        lit = G.literal_of(tok)
        got = [t for k, lst in tp.items() if k[-1:] == (tok,) for conds, t in lst]
        want = ("call", "np." + (lit or "?"), (("eval", ("name", p_arg)),), ())
        rep.check(got == [want], R, ix.site(f), "function.%s() ('%s') -> np.%s(_expression(arg))" % (tok, lit, lit), "got %s" % [show(t) for t in got], key="func|" + tok)
    falls = [t for k, lst in tp.items() if k == () for conds, t in lst]
    rep.check(falls == ["RAISE"], R, ix.site(f), "a function context matching no token raises (no silent None)", "falls through with %s" % [show(t) if t != "RAISE" else t for t in falls], key="func|fallthrough")
    # call site in _expression
    e = ix.func(EVAL)
    calls = [c for c in walk_shallow(e.node) if isinstance(c, ast.Call) and u(c.func) == "_func"]
    arg = e.params[0]
    rets = [s_ for s_ in walk_shallow(e.node) if isinstance(s_, ast.Return) and s_.value is not None and any(x is c for c in calls for x in ast.walk(s_.value))]
    direct = len(calls) == 1 and len(rets) == 1 and rets[0].value is calls[0]
    rep.check(direct and [u(a) for a in calls[0].args] == ["%s.function()" % arg, "%s.expression()" % arg], R, ix.site(e, calls[0]) if calls else ix.site(e),
              "#FunctionLabel returns _func(expr.function(), expr.expression()) unmodified", "returns `%s`" % (u(rets[0].value) if rets else None), key="func|callsite")


def function_table(rep, R, ix, f, G, ftoks):
    """table-driven form:  TABLE = {"sin": np.sin, ...};  return TABLE[function.getText()](_expression(arg))"""
    fn = f.node
    p_fun, p_arg = f.params[0], f.params[1]
    tables = {}
    for scope in (ix.module_globals(f.mod, follow=True), {u(n.targets[0]): n.value for n in ast.walk(fn) if isinstance(n, ast.Assign) and isinstance(n.targets[0], ast.Name)}):
        for name, val in scope.items():
            if isinstance(val, ast.Dict) and val.keys and all(isinstance(k, ast.Constant) and isinstance(k.value, str) for k in val.keys):
                tables[name] = {k.value: u(v) for k, v in zip(val.keys, val.values)}
    use = None
    for n in ast.walk(fn):
        if isinstance(n, ast.Return) and isinstance(n.value, ast.Call) and isinstance(n.value.func, ast.Subscript) and isinstance(n.value.func.value, ast.Name) and n.value.func.value.id in tables:
            key = " ".join(u(n.value.func.slice).split())
            arg = " ".join(u(n.value.args[0]).split()) if len(n.value.args) == 1 else None
            if key == "%s.getText()" % p_fun and arg == "_expression(%s)" % p_arg:
                use = n.value.func.value.id
    if use is None:
        raise Inconclusive("_func: neither a chain of `if function.TOKEN(): return np.f(_expression(arg))` nor a table lookup TABLE[function.getText()](_expression(arg))")
    tab = tables[use]
    lits = {G.literal_of(t): t for t in ftoks}
    for lit, tok in sorted(lits.items()):
        rep.check(tab.get(lit) == "np." + lit, R, ix.site(f), "function table maps '%s' (token %s) to np.%s" % (lit, tok, lit), "maps to %s" % tab.get(lit), key="func|" + tok)
    extra = sorted(set(tab) - set(lits))
    rep.check(not extra, R, ix.site(f), "the function table has no entry that is not a grammar function", "extra %s" % extra, key="func|extra")
    rep.ok(R, ix.site(f), "a function text missing from the table raises KeyError (no silent None)")


# ------------------------------------------------------------------------------------------- C03.5 literals
def c03_5(rep, ix, M):
    R = "C03.5"
    G = M.G
    nr = G.R["number"]
    ntoks = [x.name for a in nr.body.alts for it in a.items for x in ([it] if isinstance(it, Ref) else [y for b in getattr(it, "alts", []) for y in b.items if isinstance(y, Ref)])]
    rep.rule(R, "literals: INT -> int(text), FLOAT -> float(text), COMPLEX -> complex(text), PI -> np.pi; every alternative of `number` handled; unknown raises", floor=len(ntoks))
    f = ix.func(NUM)
    p = f.params[0]
    te = TermEval(ctxvar="__none__")
    tp = token_paths(te.paths(f.node.body, {}), p)
    text = ("method", ("name", p), "getText", (), ())
    want = {"INT": ("cast", "int", text), "FLOAT": ("cast", "float", text), "COMPLEX": ("cast", "complex", text), "PI": ("const", "pi")}
    for tok in ntoks:
        got = [t for k, lst in tp.items() if k[-1:] == (tok,) for conds, t in lst]
        rep.check(tok in want and got == [want[tok]], R, ix.site(f), "number.%s() -> %s" % (tok, show(want.get(tok, ("const", "?")))), "got %s" % [show(t) for t in got], key="num|" + tok)
    falls = [t for k, lst in tp.items() if k == () for conds, t in lst]
    rep.check(falls == ["RAISE"], R, ix.site(f), "a number context matching no token raises", key="num|fallthrough")
    e = ix.func(EVAL)
    arg = e.params[0]
    calls = [c for c in walk_shallow(e.node) if isinstance(c, ast.Call) and u(c.func) == "_number"]
    rets = [s_ for s_ in walk_shallow(e.node) if isinstance(s_, ast.Return) and s_.value is not None and any(x is c for c in calls for x in ast.walk(s_.value))]
    rep.check(len(calls) == 1 and len(rets) == 1 and rets[0].value is calls[0] and [u(a) for a in calls[0].args] == ["%s.number()" % arg], R, ix.site(e),
              "#NumberLabel returns _number(expr.number()) unmodified", key="num|callsite")
    # the PI token's literal is 'pi'
    rep.check(G.literal_of("PI") == "pi", R, "blackbird.g4 PI", "the PI token is the literal 'pi'")
    # every lexical form the grammar allows for a literal is accepted by the Python constructor that converts it (regular inclusion on automata)
    from ..py.templates import Lang, included
    L = Lang(G)
    PY = {"INT": "('+'|'-')? [0-9]+ ('_'? [0-9]+)*",
          "FLOAT": "('+'|'-')? ([0-9]+ ('.' [0-9]*)? | '.' [0-9]+) (('e'|'E') ('+'|'-')? [0-9]+)?",
          "COMPLEX": "('+'|'-')? ([0-9]+ ('.' [0-9]*)? | '.' [0-9]+) (('e'|'E') ('+'|'-')? [0-9]+)? (('+'|'-') ([0-9]+ ('.' [0-9]*)? | '.' [0-9]+) (('e'|'E') ('+'|'-')? [0-9]+)?)? ('j'|'J')"}
    for tok, py in PY.items():
        w = included(L.of_rule(tok), L.of_expr(py))
        rep.check(w is None, R, "blackbird.g4 " + tok, "every %s token text is in the input syntax of Python's %s()" % (tok, tok.lower()), "e.g. %r is a %s token that the constructor rejects" % (w, tok), key="lit|" + tok)
