"""C01 - serialise-then-parse round trip preserves every parsed program (T, V, SIB, ORD, G; DESIGN 5/C01)."""
from ..gram import model as gm
from . import common, tser, c14
from ..report import Inconclusive
from .c19 import get_ord

PROP = "C01"


def run(rep, tier, prop="C01", extra_kinds=()):
    P = prop
    rep.trust(*common.PY_TRUST)
    rep.trust(*c14.TRUST)
    rep.trust("library model of str.format on each value kind (shape classes SH_* in bbverif/py/templates.py): ints as -?d+, finite floats with a '.' or an exponent, complex as (a+bj)/bj, bools as True/False; "
              "SymPy's str() of an expression re-parses to an equal expression; the kinds the loader can put into a slot are Python/NumPy int, float, complex, bool, str, SymPy expressions, register transforms, arrays, p-names and lists of scalars")
    M = gm.Model(rep)
    ix = common.index(rep)
    # the grammar the renderings are checked against is the one the shipped parser executes
    c14.a1(rep, M)
    c14.a3(rep, M)
    c14.a4(rep, M)
    rep.rule(P + ".1", "kind coverage: in every value slot (positional, keyword, option, list element) each kind that can occur is caught by an arm whose rendering language is included in the grammar form "
                       "that reads back as the same kind (decided on character automata built from blackbird.g4)", floor=30)
    res = common.guarded(rep, P + ".1", tser.kind_coverage, rep, P + ".1", ix, M, extra_kinds)
    rep.rule(P + ".3", "parameter re-bracing: every free symbol of a symbolic value is wrapped in {} by one pass over whole identifiers (order- and overlap-insensitive)", floor=3)
    common.guarded(rep, P + ".3", tser.rebracing, rep, P + ".3", ix)
    O = get_ord(rep)
    for q in ("program.sympy_to_blackbird", "program.BlackbirdProgram.serialize", "program.list_to_blackbird", "program.numpy_to_blackbird"):
        if q == "program.list_to_blackbird" and q not in ix.funcs:
            continue          # no separate list formatter: lists are then written by the argument / option dispatch itself (decided under .1)
        hits = [x for x in O.findings.get(q, []) if x.severity == "sink"]
        for x in hits:
            rep.bad(P + ".3", ix.site(ix.func(q), x.node), "`%s` does not depend on set iteration order" % x.text, "%s; source %s" % (x.sink, x.taint.src), key="ord|" + x.text)
        if not hits:
            rep.ok(P + ".3", ix.site(ix.func(q)), "%s: no unordered collection reaches the output text" % q)
    # the reader side of the round trip: the serialised text (or the caller's script) reaches the lexer unmodified
    from . import c10
    common.guarded(rep, "C10.2", c10.c10_2, rep, ix)
    # ... and the reader evaluates the written numbers and operators to their arithmetic value (operator table of the evaluator, shared with C03)
    from . import c03
    from ..py.ctxtypes import ContextClasses
    cc_ = ContextClasses(M.src["py_parser"])
    br_ = common.guarded(rep, "C03.2", c03.c03_2, rep, ix, M)
    if br_:
        common.guarded(rep, "C03.3", c03.c03_3, rep, ix, M, cc_, br_)
    common.guarded(rep, "C03.5", c03.c03_5, rep, ix, M)
    if P == "C01":
        # the free parameters the reader reports are the ones the evaluator registered: every writer of the parameter table is a known one
        from . import c15 as _c15
        common.guarded(rep, "C15.3", _c15.c15_3, rep, ix)
        # what the reader reports for the re-read text (parameters, variables) is that load's own data: the module tables hold nothing of an
        # earlier - possibly failed - load (shared with C12)
        from . import c05 as _c05
        _c05.shared_tables(rep, ix, M.G)
        # the symbols SymPy prints are the ones the reader created: plain Symbol(<token text>), no assumptions that make SymPy rewrite the expression
        from . import c08
        common.guarded(rep, "C08.1", c08.c08_1, rep, ix, M.G)
    # writing a program leaves it as it was (a second serialisation, or an operation sharing the same list, gives the same text): shared with C13
    from . import c13
    common.guarded(rep, "C13.1", c13.c13_1, rep, common.eff(rep), ix)
    # ... and so does instantiating it: a loaded template that has been called still serialises to its own script (the instance is deep-fresh)
    common.guarded(rep, "C13.2", c13.c13_2, rep, common.eff(rep), ix)
    common.guarded(rep, P + ".10", empty_program, rep, ix, P + ".10")
    common.guarded(rep, P + ".9", redeclaration, rep, ix, P + ".9")
    rep.rule(P + ".4", "script structure: metadata keywords, option and argument lists, statement lines and mode lists have the shapes the grammar prescribes; elements are separated by ', '", floor=8)
    common.guarded(rep, P + ".4", tser.structure, rep, P + ".4", ix, M)
    rep.rule(P + ".5", "array values are hoisted into declarations whose header and rows are in the language of arrayvar for the array's own dtype, one fresh declaration per array value, inserted before the statements", floor=10)
    if res:
        common.guarded(rep, P + ".5", tser.arrays, rep, P + ".5", ix, M, res[0])
    from . import c05, c02
    c05.aliasing_lint(rep, ix)          # row-major traversal only, no aliased rows
    common.guarded(rep, P + ".7", c02.c02_7, rep, ix, M, P + ".7")       # reader side of the str / bool forms
    # tdm programs: predicate agreement and variable section (shared with C15)
    from . import c15
    common.guarded(rep, "C15.1", c15.c15_1, rep, ix)
    common.guarded(rep, "C15.4", tser.c15_4, rep, ix, M)
    rep.rule(P + ".8", "symbolic values are printed with the grammar's precedences: the grammar binds a unary sign tighter than ** (it reads -a**2 as (-a)**2), SymPy's default printer writes "
                       "-a**2 for -(a**2); so either the printer is adapted or the grammar agrees", floor=1)
    from ..gram import model as gm2
    _, _, table = gm2.left_recursive_rewrite(M.G.R["expression"])
    by = {t["label"]: t for t in table}
    grammar_sign_tighter = "SignLabel" in by and "PowerLabel" in by and by["SignLabel"]["prec"] > by["PowerLabel"]["prec"]
    import ast as _ast
    for q_, what in (("program.sympy_to_blackbird", "template-parameter expressions"), ("listener.RegRefTransform.__init__", "register-transform expressions")):
        fq = ix.func(q_)
        txt = _ast.unparse(fq.node)
        adapted = any(k in txt for k in ("_print_Mul", "_print_Pow", "'-1*'", '"-1*"', "StrPrinter", "precedence"))
        rep.check((not grammar_sign_tighter) or adapted, P + ".8", ix.site(fq), "%s are printed so that a leading minus in front of a power re-parses as written" % what,
                  "str(expr) gives '-a**2' for -(a**2); the grammar (sign precedence %s > power precedence %s) re-parses it as (-a)**2" % (
                      by.get("SignLabel", {}).get("prec"), by.get("PowerLabel", {}).get("prec")), key=q_ + "|unary minus before power")
    # RegRefTransform prints its expression
    import ast
    from ..py.index import u
    rr = ix.func("listener.RegRefTransform.__str__")
    body = [s for s in rr.node.body if not (isinstance(s, ast.Expr) and isinstance(s.value, ast.Constant))]
    init = ix.func("listener.RegRefTransform.__init__")
    fs = [n for n in ast.walk(init.node) if isinstance(n, ast.Assign) and u(n.targets[0]) == "self.func_str"]
    rep.rule(P + ".6", "a register transform prints as the text of its expression", floor=1)
    rep.check(len(body) == 1 and u(body[0]) == "return self.func_str" and len(fs) == 1 and u(fs[0].value) == "str(%s)" % init.params[1], P + ".6", ix.site(rr),
              "RegRefTransform.__str__ returns str(expr)", key="regref str")


def empty_program(rep, ix, R):
    """a program without operations is a program: BlackbirdProgram defines __len__, so such an object is falsy and `if not prog` refuses it"""
    import ast
    from ..py.guards import Reach, AEval, stmt_of
    from ..py.index import u, walk_shallow
    rep.rule(R, "dump / dumps hand every program to serialize(): a test of the program object's truth value or length cannot stand in the way (a program with no operations has "
                "length 0 and is falsy)", floor=2)
    cls = ix.classes.get("program.BlackbirdProgram")
    falsy = cls is not None and any(isinstance(n, ast.FunctionDef) and n.name in ("__len__", "__bool__") for n in cls.body)
    for q in ("__init__.dumps", "__init__.dump"):
        f = ix.func(q)
        fn = f.node
        p0 = f.params[0]
        sers = [c for c in walk_shallow(fn) if isinstance(c, ast.Call) and isinstance(c.func, ast.Attribute) and c.func.attr == "serialize"]
        if not sers:
            # the serialiser may have been read into the function (normal form): then any statement that uses the program's content will do
            sers = [c for c in walk_shallow(fn) if isinstance(c, ast.Attribute) and isinstance(c.value, ast.Name) and c.value.id == p0][:1]
        if not sers:
            # dump written in terms of dumps: the program is handed on (dumps is checked itself)
            sers = [c for c in walk_shallow(fn) if isinstance(c, ast.Call) and isinstance(c.func, ast.Name) and c.func.id in ("dumps", "dump") and c.args
                    and isinstance(c.args[0], ast.Name) and c.args[0].id == p0][:1]
        if not sers:
            raise Inconclusive("%s: use of the program (serialize) not recognised" % q)
        if not falsy:
            rep.ok(R, ix.site(f), "%s: the program class defines neither __len__ nor __bool__ (every program is truthy)" % q.split(".")[-1])
            continue

        def atom(node):
            if isinstance(node, ast.Name) and node.id == p0:
                return ()           # model of a program with no operations: falsy, length 0
            return AEval.NO
        # some serialize() call must be reachable for the empty program
        r = any(Reach(fn, stmt_of(fn, c_)).may_reach(atom) for c_ in sers)
        st = stmt_of(fn, sers[0])
        rep.check(r, R, ix.site(f, st), "%s: a program with no operations reaches `%s`" % (q.split(".")[-1], " ".join(u(st).split())[:50]),
                  "a test on the program's truth value / length leaves the function first", key="%s|empty" % q)


def redeclaration(rep, ix, R):
    """the serialiser of a tdm program writes every variable and also declares hoisted array arguments as A0, A1, ...: after one round trip
    those names are variables, and the next dump declares them twice.  The reader must therefore accept a name that is declared again."""
    import ast
    from ..py.guards import AEval, Reach, resolved_text
    from ..py.index import u, walk_shallow
    rep.rule(R, "a declaration of a name that is already declared is accepted (the later value replaces the earlier one): the text written for a tdm program can declare a hoisted "
                "array name twice", floor=2)
    for q in ("listener.BlackbirdListener.exitExpressionvar", "listener.BlackbirdListener.exitArrayvar"):
        f = ix.func(q)
        fn = f.node
        stores = [n for n in walk_shallow(fn) if isinstance(n, ast.Assign) and isinstance(n.targets[0], ast.Subscript) and u(n.targets[0].value) == "_VAR"]
        if not stores:
            rep.unknown(R, ix.site(f), "%s stores the declared value" % q.split(".")[-1], "no store into _VAR found")
            continue

        def atom(node):
            if isinstance(node, ast.Compare) and len(node.ops) == 1 and isinstance(node.ops[0], (ast.In, ast.NotIn)) and u(node.comparators[0]) == "_VAR":
                return isinstance(node.ops[0], ast.In)           # the name IS in the table already
            if isinstance(node, ast.Call) and isinstance(node.func, ast.Attribute) and node.func.attr == "get" and u(node.func.value) == "_VAR":
                return "EARLIER-VALUE"
            return AEval.NO
        ok = any(Reach(fn, st).may_reach(atom) for st in stores)
        rep.check(ok, R, ix.site(f, stores[0]), "%s: the store is reachable when the name is already in the variable table" % q.split(".")[-1],
                  "a second declaration of a name is refused: a tdm program with an array argument no longer survives two dump/load generations", key=q + "|redeclare")
