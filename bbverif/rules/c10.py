"""C10 - ungrammatical scripts always raise BlackbirdSyntaxError at the offending token (DESIGN 5/C10)."""
import ast
import os
import re

from ..report import Inconclusive
from ..gram import model as gm
from ..py.ctxtypes import ContextClasses, Typer
from ..py.guards import always_raises
from ..py.index import u, walk_shallow, pos
from . import c14, common

SYNERR = "error.BlackbirdErrorListener.syntaxError"
PIPELINES = ["listener.parse", "listener.BlackbirdListener.exitInclude"]
ALLOWED_PARSER_CALLS = {"removeErrorListeners", "addErrorListener", "start"}


def run(rep, tier):
    rep.trust(*common.PY_TRUST)
    rep.trust(*c14.TRUST)
    rep.trust("antlr4 DefaultErrorStrategy reports every recognition error through notifyErrorListeners before attempting recovery, at the first token that cannot extend a viable prefix")
    M = gm.Model(rep)
    # C10.1 the syntax stage accepts exactly L(G)
    c14.a1(rep, M)
    c14.a3(rep, M)
    c14.a4(rep, M)
    c14.a5(rep, M)
    c14.k2(rep, M)
    from . import c14_k1
    c14_k1.k1(rep, M)
    from . import common as _common
    _common.guarded(rep, "C14.K1b", c14_k1.k1b, rep, M)
    ix = common.index(rep)
    common.guarded(rep, "C10.2", c10_2, rep, ix)
    common.guarded(rep, "C10.3", c10_3, rep, ix)
    common.guarded(rep, "C10.4", c10_4, rep, ix)
    common.guarded(rep, "C10.5", c10_5, rep, ix, M)


# -------------------------------------------------------------------------------- helpers
def assigns(fn, name):
    return [n for n in walk_shallow(fn) if isinstance(n, (ast.Assign, ast.AugAssign, ast.AnnAssign)) and any(
        isinstance(x, ast.Name) and x.id == name for t in (n.targets if isinstance(n, ast.Assign) else [n.target]) for x in ast.walk(t))]


def resolve(fn, e, depth=0):
    if isinstance(e, ast.Name) and depth < 5:
        a = assigns(fn, e.id)
        if len(a) == 1 and isinstance(a[0], ast.Assign) and len(a[0].targets) == 1 and isinstance(a[0].targets[0], ast.Name):
            return resolve(fn, a[0].value, depth + 1)
    return e


def is_param(fn, e):
    """expression is a parameter of fn that is never rebound"""
    names = [a.arg for a in fn.args.posonlyargs + fn.args.args + fn.args.kwonlyargs]
    e = resolve(fn, e)
    return isinstance(e, ast.Name) and e.id in names and not assigns(fn, e.id) and not any(
        isinstance(n, (ast.For, ast.comprehension, ast.With)) and any(isinstance(x, ast.Name) and x.id == e.id for x in ast.walk(getattr(n, "target", n))) for n in ast.walk(fn) if hasattr(n, "target"))


def calls_named(fn, name):
    return [n for n in walk_shallow(fn) if isinstance(n, ast.Call) and (u(n.func) == name or u(n.func).endswith("." + name))]


def var_bound_to_call(fn, callname):
    """(var name, call node) for `var = <callname>(...)`"""
    out = []
    for n in walk_shallow(fn):
        if isinstance(n, ast.Assign) and len(n.targets) == 1 and isinstance(n.targets[0], ast.Name) and isinstance(n.value, ast.Call) and (
                u(n.value.func) == callname or u(n.value.func).endswith("." + callname)):
            out.append((n.targets[0].id, n.value, n))
    return out


# -------------------------------------------------------------------------------- C10.2 pipeline integrity
def c10_2(rep, ix, R="C10.2"):
    rep.rule(R, "every parse feeds the caller's unmodified text to the generated lexer, token stream and parser, installs the Blackbird error listener (after removing the defaults) "
                "before the single start() call, and touches no other parser/lexer setting", floor=14)
    pipelines = sorted(q for q, f_ in ix.funcs.items() if f_.mod in ("listener", "__init__", "auxiliary") and var_bound_to_call(f_.node, "blackbirdParser"))
    if not pipelines:
        raise Inconclusive("no function of the package constructs a blackbirdParser")
    helpers = [q for q in pipelines if q not in PIPELINES]
    for q in PIPELINES:
        f = ix.func(q)
        if q in pipelines:
            continue
        # the parse is delegated to a helper: its argument must be the caller's unmodified stream
        calls = [c for c in walk_shallow(f.node) if isinstance(c, ast.Call) and isinstance(c.func, ast.Name) and ix.resolve_name(f.mod, c.func.id) in helpers]
        ok = len(calls) == 1 and len(calls[0].args) == 1 and not calls[0].keywords
        src = resolve(f.node, calls[0].args[0]) if ok else None
        if q == "listener.parse":
            ok = ok and is_param(f.node, calls[0].args[0])
        else:
            ok = ok and isinstance(src, ast.Call) and u(src.func).endswith("FileStream")
        rep.check(ok, R, ix.site(f), "%s hands its unmodified input stream to the parsing helper (exactly one parse)" % q, "passes `%s`" % (u(src) if src is not None else None), key=q + "|delegates")
        for n in walk_shallow(f.node):
            if isinstance(n, ast.Try):
                for h in n.handlers:
                    rep.check(always_raises(h.body), R, ix.site(f, h), "%s: no exception handler absorbs an error of the parse" % q, key=q + "|swallow")
    # the caller's text is looked at by the lexer and by nothing else: every use of the text / stream parameter of the API functions and of
    # the pipeline is its hand-over to the stream, lexer or parse call (or, for a file name, to os.path)
    ALLOWED_CONSUMERS = ("InputStream", "FileStream", "blackbirdLexer", "parse", "dirname", "abspath", "realpath", "join", "basename", "fspath", "isinstance", "Path", "str")
    PATH_ONLY = ("dirname", "abspath", "realpath", "join", "basename", "fspath", "split", "splitext", "isabs", "PurePath")

    def path_helper(hq):
        """a helper of the package that does nothing with its argument but path arithmetic (os.path functions on a file name)"""
        h = ix.funcs.get(hq)
        if h is None:
            return False
        hn = getattr(h, "orig", None) or h.node
        hp = [a.arg for a in hn.args.posonlyargs + hn.args.args]
        if len(hp) != 1:
            return False
        par_ = {}
        for n_ in ast.walk(hn):
            for c__ in ast.iter_child_nodes(n_):
                par_[id(c__)] = n_
        uses = [n_ for n_ in ast.walk(hn) if isinstance(n_, ast.Name) and n_.id == hp[0] and isinstance(n_.ctx, ast.Load)]
        # ... or hands it, unmodified, to the stream constructor (a helper that opens the file and tells its directory)
        return bool(uses) and all(isinstance(par_.get(id(x_)), ast.Call) and x_ in par_[id(x_)].args and (
            (u(par_[id(x_)].func).startswith(("os.path.", "posixpath.", "ntpath.")) and u(par_[id(x_)].func).split(".")[-1] in PATH_ONLY) or
            (u(par_[id(x_)].func).split(".")[-1] in ("FileStream", "InputStream") and par_[id(x_)].args[0] is x_)) for x_ in uses)
    for q in sorted({"listener.parse", "__init__.load", "__init__.loads"} | {x for x in pipelines if not ix.funcs[x].cls}):
        if q not in ix.funcs:
            continue
        f = ix.func(q)
        fn = getattr(f, "orig", None) or f.node
        params = [a.arg for a in fn.args.posonlyargs + fn.args.args if a.arg not in ("self", "cls")]
        if not params:
            continue
        p0 = params[0]
        parents = {}
        for n in ast.walk(fn):
            for c_ in ast.iter_child_nodes(n):
                parents[id(c_)] = n
        for x in [n for n in ast.walk(fn) if isinstance(n, ast.Name) and n.id == p0 and isinstance(n.ctx, ast.Load)]:
            par = parents.get(id(x))
            okuse = isinstance(par, ast.Call) and x in par.args and u(par.func).split(".")[-1] in ALLOWED_CONSUMERS
            # ... or to the helper of the package that builds the lexer / parser (checked itself, as a pipeline)
            if not okuse and isinstance(par, ast.Call) and x in par.args and isinstance(par.func, ast.Name):
                hq = ix.resolve_name(f.mod, par.func.id)
                if hq in pipelines or (hq in ix.funcs and var_bound_to_call(ix.funcs[hq].node, "blackbirdLexer")) or path_helper(hq):
                    okuse = True
            if not okuse and isinstance(par, ast.Call) and x in par.args and u(par.func).startswith("os.path.") and u(par.func).split(".")[-1] in PATH_ONLY:
                okuse = True
            if okuse and u(par.func).split(".")[-1] == "str":
                # str(text) is still the text: what matters is where *that* goes
                gp = parents.get(id(par))
                okuse = isinstance(gp, ast.Call) and par in gp.args and u(gp.func).split(".")[-1] in ALLOWED_CONSUMERS[:-1]
            if isinstance(par, ast.keyword):
                gp = parents.get(id(par))
                okuse = isinstance(gp, ast.Call) and u(gp.func).split(".")[-1] in ALLOWED_CONSUMERS
            rep.check(okuse, R, ix.site(f, x), "%s: `%s` is handed to the stream / lexer / parse call and used nowhere else" % (q.split(".")[-1], p0),
                      "`%s` reads the script text outside the generated lexer: whatever that code accepts, rejects or rewrites is a second definition of the language, layout included"
                      % (" ".join(u(par).split())[:60] if par is not None else p0), key="%s|text use|%s" % (q, " ".join(u(par).split())[:40] if par is not None else ""))
    for q in pipelines:
        f = ix.func(q)
        fn = f.node
        lex = var_bound_to_call(fn, "blackbirdLexer")
        ts = var_bound_to_call(fn, "CommonTokenStream")
        ps = var_bound_to_call(fn, "blackbirdParser")
        if len(ts) == 1 and len(ps) == 1 and len(lex) == 0:
            # the token stream is fed by something that is not the generated lexer
            src = resolve(fn, ts[0][1].args[0]) if ts[0][1].args else None
            rep.bad(R, ix.site(f, ts[0][1]), "%s: the token stream is produced by the generated blackbirdLexer itself" % q.split(".")[-1],
                    "the stream is built on `%s`: tokens are no longer the grammar's token sequence for the text" % (u(src) if src is not None else None), key=q + "|lexer class")
            continue
        if not (len(lex) == 1 and len(ts) == 1 and len(ps) == 1):
            raise Inconclusive("%s: expected one blackbirdLexer / CommonTokenStream / blackbirdParser construction each, found %d/%d/%d" % (q, len(lex), len(ts), len(ps)))
        lv, lc, lstmt = lex[0]
        tv, tc, tstmt = ts[0]
        pv, pc, pstmt = ps[0]
        # every load parses: the pipeline statements are unconditional statements of the function body
        top = all(st in fn.body for st in (lstmt, tstmt, pstmt))
        rep.check(top, R, ix.site(f, pstmt), "%s: lexer, token stream and parser are constructed unconditionally (every call parses its own input; no cached or reused parse)" % q.split(".")[-1],
                  "the parse is conditional", key=q + "|unconditional")
        from . import common as _c
        E = _c.eff(rep)
        live = sorted(g for g in E.summ[q].reads_globals if g in E.written_globals and g not in ("GLOBAL:auxiliary._VAR", "GLOBAL:auxiliary._PARAMS"))
        rep.check(not live, R, ix.site(f), "%s consults no module-level state besides the variable/parameter tables (the outcome depends on the given text only)" % q.split(".")[-1],
                  "reads %s" % live, key=q + "|globals")
        # the tree that is walked is the direct result of this parser's start()
        walks = [c for c in walk_shallow(fn) if isinstance(c, ast.Call) and isinstance(c.func, ast.Attribute) and c.func.attr == "walk" and len(c.args) == 2]
        rets = [r for r in walk_shallow(fn) if isinstance(r, ast.Return) and r.value is not None]
        for w in walks:
            t = resolve(fn, w.args[1])
            rep.check(isinstance(t, ast.Call) and u(t.func) == "%s.start" % pv, R, ix.site(f, w), "%s: the tree that is walked is the result of this parser's start()" % q.split(".")[-1],
                      "walks `%s`" % u(t), key=q + "|walk tree")
        for v in (lv, tv, pv):
            rep.check(len(assigns(fn, v)) == 1, R, ix.site(f), "%s: `%s` is bound exactly once" % (q, v), key="%s|once %s" % (q, v))
        # lexer input
        src = resolve(fn, lc.args[0]) if lc.args else None
        if q != "listener.BlackbirdListener.exitInclude":
            ok = lc.args and is_param(fn, lc.args[0]) and len(lc.args) == 1 and not lc.keywords
            rep.check(ok, R, ix.site(f, lc), "%s: the lexer reads the input stream exactly as passed in (no pre-processing of the script text)" % q.split(".")[-1],
                      "lexer input is `%s`" % (u(src) if src is not None else None), key=q + "|lexer input")
        else:
            ok = isinstance(src, ast.Call) and u(src.func).endswith("FileStream") and len(lc.args) == 1
            rep.check(ok, R, ix.site(f, lc), "exitInclude: the lexer reads the FileStream of the included file directly", "lexer input is `%s`" % (u(src) if src is not None else None),
                      key=q + "|lexer input")
        rep.check(len(tc.args) == 1 and u(tc.args[0]) == lv and not tc.keywords, R, ix.site(f, tc), "%s: the token stream is built on that lexer" % q, key=q + "|stream")
        rep.check(len(pc.args) == 1 and u(pc.args[0]) == tv and not pc.keywords, R, ix.site(f, pc), "%s: the parser is built on that token stream" % q, key=q + "|parser")
        # uses of lexer / stream / parser variables
        starts = []
        seq = []
        for n in walk_shallow(fn):
            if isinstance(n, ast.Attribute) and isinstance(n.value, ast.Name) and n.value.id in (lv, tv, pv):
                seq.append(n)
        for n in walk_shallow(fn):
            if isinstance(n, ast.Call) and isinstance(n.func, ast.Attribute) and isinstance(n.func.value, ast.Name) and n.func.value.id == pv:
                if n.func.attr == "start":
                    starts.append(n)
        other = []
        for n in seq:
            if n.value.id == pv and n.attr in ALLOWED_PARSER_CALLS:
                continue
            other.append("%s.%s" % (n.value.id, n.attr))
        rep.check(not other, R, ix.site(f), "%s: nothing else is read from or set on the lexer, token stream or parser (no prediction-mode, error-strategy, listener or token tweaks)" % q,
                  "found %s" % sorted(set(other)), key=q + "|other uses")
        # names passed elsewhere
        passed = []
        for n in walk_shallow(fn):
            if isinstance(n, ast.Call):
                for a in list(n.args) + [k.value for k in n.keywords]:
                    if isinstance(a, ast.Name) and a.id in (lv, tv, pv) and not (n is tc or n is pc):
                        passed.append(u(n)[:60])
        rep.check(not passed, R, ix.site(f), "%s: lexer/stream/parser objects are not handed to other code" % q, "passed in %s" % passed, key=q + "|passed")
        rep.check(len(starts) == 1, R, ix.site(f), "%s: exactly one call of parser.start()" % q, "found %d" % len(starts), key=q + "|one start")
        # straight-line order: construct -> removeErrorListeners -> addErrorListener(BlackbirdErrorListener()) -> start, all statements of one block
        blk = block_of(fn.body, pstmt)
        order = []
        if blk is not None:
            for s in blk[blk.index(pstmt) + 1:]:
                txt = u(s)
                if isinstance(s, ast.Expr) and txt == "%s.removeErrorListeners()" % pv:
                    order.append("remove")
                elif isinstance(s, ast.Expr) and re.fullmatch(r"%s\.addErrorListener\(BlackbirdErrorListener\(\)\)" % re.escape(pv), txt):
                    order.append("add")
                elif isinstance(s, ast.Expr) and isinstance(s.value, ast.Call) and u(s.value.func) == "%s.addErrorListener" % pv and len(s.value.args) == 1 \
                        and isinstance(s.value.args[0], ast.Name) and defaulted_listener(ix, f, s.value.args[0].id, s):
                    order.append("add")       # an optional parameter that is the package's listener whenever the package itself calls
                elif "%s.start()" % pv in txt:
                    order.append("start")
                    break
                elif any(isinstance(x, ast.Name) and x.id == pv for x in ast.walk(s)):
                    order.append("other:" + txt[:40])
        rep.check(order == ["remove", "add", "start"], R, ix.site(f, pstmt),
                  "%s: between construction and start(), in the same block: removeErrorListeners() then addErrorListener(BlackbirdErrorListener())" % q, "found %r" % order, key=q + "|listener order")
        # no try/except around the pipeline that could absorb the syntax error
        for n in walk_shallow(fn):
            if isinstance(n, ast.Try):
                for h in n.handlers:
                    rep.check(always_raises(h.body), R, ix.site(f, h), "%s: no exception handler absorbs an error of the parse" % q, key=q + "|swallow")
    # entry points hand the caller's text / file to parse unmodified
    ld, lds = ix.func("__init__.load"), ix.func("__init__.loads")
    for f, ctor in ((lds, "InputStream"), (ld, "FileStream")):
        cs = calls_named(f.node, ctor)
        ok = len(cs) == 1 and len(cs[0].args) == 1 and not cs[0].keywords and is_param(f.node, cs[0].args[0])
        rep.check(ok, R, ix.site(f), "%s: antlr4.%s receives the caller's argument unmodified" % (f.qual, ctor), "got `%s`" % (u(cs[0]) if cs else None), key=f.qual + "|stream arg")
        pcs = calls_named(f.node, "parse")
        okp = len(pcs) == 1 and pcs[0].args and isinstance(resolve(f.node, pcs[0].args[0]), ast.Call) and resolve(f.node, pcs[0].args[0]) is (cs[0] if cs else None)
        rep.check(okp, R, ix.site(f), "%s: that stream is what parse() receives, and its result is returned" % f.qual, key=f.qual + "|parse arg")
        rets = [n for n in walk_shallow(f.node) if isinstance(n, ast.Return)]
        rep.check(len(rets) == 1 and rets[0].value is not None and resolve(f.node, rets[0].value) is (pcs[0] if pcs else None), R, ix.site(f),
                  "%s returns parse()'s program" % f.qual, key=f.qual + "|return")
        for n in walk_shallow(f.node):
            if isinstance(n, ast.Try):
                rep.bad(R, ix.site(f, n), "%s has no try/except around the parse" % f.qual, key=f.qual + "|try")


def block_of(stmts, target):
    for s in stmts:
        if s is target:
            return stmts
        for field in ("body", "orelse", "finalbody"):
            sub = getattr(s, field, None)
            if isinstance(sub, list) and sub and isinstance(sub[0], ast.stmt):
                r = block_of(sub, target)
                if r is not None:
                    return r
        if isinstance(s, ast.Try):
            for h in s.handlers:
                r = block_of(h.body, target)
                if r is not None:
                    return r
    return None


# -------------------------------------------------------------------------------- C10.3 every report raises the right class
def c10_3(rep, ix):
    R = "C10.3"
    rep.rule(R, "syntaxError raises BlackbirdSyntaxError on every path: no return, no fall-through, no handler that absorbs it; the class is not a RecognitionException", floor=5)
    f = ix.func(SYNERR)
    fn = f.node
    rep.check(always_raises(fn.body), R, ix.site(f), "every path through syntaxError ends in a raise", key="all paths raise")
    rets = [n for n in walk_shallow(fn) if isinstance(n, (ast.Return, ast.Yield, ast.YieldFrom))]
    rep.check(not rets, R, ix.site(f, rets[0]) if rets else ix.site(f), "syntaxError contains no return", key="no return")
    nr = 0
    for n in walk_shallow(fn):
        if isinstance(n, ast.Raise):
            nr += 1
            cls = u(n.exc.func) if isinstance(n.exc, ast.Call) else (u(n.exc) if n.exc is not None else None)
            rep.check(cls == "BlackbirdSyntaxError", R, ix.site(f, n), "`%s...` raises BlackbirdSyntaxError" % u(n)[:60], "raises %s" % cls, key="raise|" + " ".join(u(n).split())[:80])
        if isinstance(n, ast.Try):
            for h in n.handlers:
                rep.check(always_raises(h.body) and all(u(x.exc.func if isinstance(x.exc, ast.Call) else x.exc) == "BlackbirdSyntaxError" for x in ast.walk(h) if isinstance(x, ast.Raise) and x.exc is not None),
                          R, ix.site(f, h), "exception handler in syntaxError re-raises BlackbirdSyntaxError", key="handler")
    # class hierarchy
    c = ix.cls("error.BlackbirdSyntaxError")
    chain = []
    cur = c
    seen = 0
    while cur is not None and seen < 6:
        seen += 1
        bases = [u(b) for b in cur.bases]
        chain.append(bases)
        nxt = None
        for b in bases:
            if "error." + b in ix.classes:
                nxt = ix.classes["error." + b]
        cur = nxt
    flat = [b for bs in chain for b in bs]
    rep.check(flat and flat[-1] in ("Exception",) and not any("Recognition" in b or "Cancel" in b for b in flat), R, "error.BlackbirdSyntaxError",
              "BlackbirdSyntaxError derives from Exception through handwritten classes only (the runtime's `except RecognitionException` cannot absorb it)", "bases %r" % chain, key="hierarchy")
    # constructing the exception cannot itself fail: the constructors along the hierarchy dereference nothing that may be None
    # (a regex match, a dict.get) and convert nothing, outside a guard / try that covers it
    cur, seen = c, 0
    names = ["error.BlackbirdSyntaxError"]
    while cur is not None and seen < 6:
        seen += 1
        nxt = None
        for b in [u(b_) for b_ in cur.bases]:
            if "error." + b in ix.classes:
                nxt = ix.classes["error." + b]
                names.append("error." + b)
        cur = nxt
    for cq in names:
        g = ix.funcs.get(cq + ".__init__")
        if g is None:
            continue
        gn = getattr(g, "orig", None) or g.node
        nullable = {}
        for n in ast.walk(gn):
            if isinstance(n, ast.Assign) and len(n.targets) == 1 and isinstance(n.targets[0], ast.Name) and isinstance(n.value, ast.Call) and isinstance(n.value.func, ast.Attribute) \
                    and n.value.func.attr in ("match", "fullmatch", "search", "get"):
                nullable[n.targets[0].id] = n
        bad = []
        from ..py.guards import path_to, stmt_of as _stmt_of

        def guarded_by(fn_, node, name):
            st_ = _stmt_of(fn_, node)
            for (stmts, i, field) in path_to(fn_.body, st_) or []:
                s_ = stmts[i]
                if isinstance(s_, ast.If):
                    t_ = " ".join(u(s_.test).split())
                    if field == "body" and t_ in (name, "%s is not None" % name):
                        return True
                    if field == "orelse" and t_ in ("not %s" % name, "%s is None" % name):
                        return True
                for prev in stmts[:i]:
                    if isinstance(prev, ast.If) and not prev.orelse and " ".join(u(prev.test).split()) in ("not %s" % name, "%s is None" % name) \
                            and prev.body and isinstance(prev.body[-1], (ast.Return, ast.Raise)):
                        return True
            return False
        for n in ast.walk(gn):
            if isinstance(n, (ast.Subscript, ast.Attribute)) and isinstance(n.value, ast.Name) and n.value.id in nullable and isinstance(n.ctx, ast.Load):
                in_try = any(isinstance(t, ast.Try) and any(x is n for b_ in t.body for x in ast.walk(b_)) and any(h.type is None or "TypeError" in u(h.type) or "Exception" in u(h.type) for h in t.handlers)
                             for t in ast.walk(gn))
                if not in_try and not guarded_by(gn, n, n.value.id):
                    bad.append(n)
        rep.check(not bad, R, ix.site(g, bad[0]) if bad else ix.site(g), "%s.__init__ cannot fail while the error is being constructed" % cq.split(".")[-1],
                  "`%s` dereferences `%s`, which is None when the pattern does not match (e.g. a message that contains a line break): TypeError instead of BlackbirdSyntaxError" % (
                      " ".join(u(bad[0]).split())[:50], bad[0].value.id) if bad else "", key="ctor|" + cq)
    lst = ix.cls("error.BlackbirdErrorListener")
    rep.check(any("ErrorListener" in u(b) for b in lst.bases), R, "error.BlackbirdErrorListener", "the listener derives from antlr4's ErrorListener", key="listener base")
    meths = {n.name for n in lst.body if isinstance(n, ast.FunctionDef)}
    rep.check("syntaxError" in meths, R, "error.BlackbirdErrorListener", "the listener overrides syntaxError", key="override")
    a = fn.args
    rep.check([x.arg for x in a.args] == ["self", "recognizer", "offendingSymbol", "line", "column", "msg", "e"], R, ix.site(f), "syntaxError has the runtime's signature", key="signature")
    # no early exception construction elsewhere that returns a program: load/loads propagate (checked in C10.2)


# -------------------------------------------------------------------------------- C10.4 line and 1-based column
def c10_4(rep, ix):
    R = "C10.4"
    rep.rule(R, "every message raised by syntaxError starts with the unmodified line and column + 1 of the offending token", floor=3)
    f = ix.func(SYNERR)
    fn = f.node
    for p in ("line", "column"):
        rep.check(not assigns(fn, p), R, ix.site(f), "parameter `%s` is never rebound in syntaxError" % p, key="rebound " + p)
    from ..py import norm
    nraise = 0
    for n in walk_shallow(fn):
        if not isinstance(n, ast.Raise) or not isinstance(n.exc, ast.Call) or not n.exc.args:
            continue
        nraise += 1
        msg = n.exc.args[0]
        key = " ".join(u(n).split())[:90]
        parts = message_parts(fn, msg, n)
        if parts is None:
            rep.bad(R, ix.site(f, n), "`%s` formats line and column into its message" % key, "message is not a recognisable format expression", key="fmt|" + key)
            continue
        lits = [p for p in parts]
        from ..py.guards import resolved_text as _rt
        ok = len(parts) >= 4 and parts[0][0] == "lit" and parts[0][1] == "Blackbird SyntaxError (line " and parts[1][0] == "expr" and _rt(fn, parts[1][1], n) == "line" \
            and parts[2] == ("lit", ":") and parts[3][0] == "expr" and _rt(fn, parts[3][1], n) in ("column + 1", "1 + column") \
            and len(parts) > 4 and parts[4][0] == "lit" and parts[4][1].startswith(")")
        shown = "".join(p[1] if p[0] == "lit" else "{%s}" % u(p[1]) for p in parts)[:70]
        rep.check(ok, R, ix.site(f, n), "`%s`: the message starts 'Blackbird SyntaxError (line {line}:{column + 1})'" % key, "message `%s`" % shown, key="msg|" + key)
    if nraise == 0:
        raise Inconclusive("syntaxError: no raise statement with a message found")


def defaulted_listener(ix, f, name, at):
    """`name` is a parameter of f with default None that is replaced by BlackbirdErrorListener() when it is None before `at`, and no call
    inside the package passes it: every load through the package's own entry points installs the package's listener"""
    a = f.node.args
    names = [x.arg for x in a.posonlyargs + a.args]
    defaults = dict(zip(names[len(names) - len(a.defaults):], a.defaults))
    for x, d in zip(a.kwonlyargs, a.kw_defaults):
        if d is not None:
            defaults[x.arg] = d
    d = defaults.get(name)
    if not (isinstance(d, ast.Constant) and d.value is None):
        return False
    filled = False
    for s_ in f.node.body:
        if pos(s_) >= pos(at):
            break
        if isinstance(s_, ast.If) and " ".join(u(s_.test).split()) in ("%s is None" % name, "not %s" % name) and not s_.orelse and len(s_.body) == 1 \
                and " ".join(u(s_.body[0]).split()) == "%s = BlackbirdErrorListener()" % name:
            filled = True
        elif any(isinstance(x, ast.Name) and x.id == name and isinstance(x.ctx, ast.Store) for x in ast.walk(s_)):
            filled = filled and False
    if not filled:
        return False
    index_of = names.index(name) if name in names else None
    for q, g in ix.funcs.items():
        for c in ast.walk(g.node):
            if isinstance(c, ast.Call) and (u(c.func) == f.name or u(c.func).endswith("." + f.name)):
                if any(k.arg == name or k.arg is None for k in c.keywords) or (index_of is not None and len(c.args) > index_of) or any(isinstance(x, ast.Starred) for x in c.args):
                    return False
    return True


def message_parts(fn, msg, at):
    """canonical parts of a message expression; a template held in a local name is looked up at its latest assignment before `at`"""
    from ..py import norm
    if isinstance(msg, ast.Call) and isinstance(msg.func, ast.Attribute) and msg.func.attr == "format" and isinstance(msg.func.value, ast.Name):
        tmpl = resolve_str(fn, msg.func.value, at)
        if tmpl is None:
            return None
        fake = ast.Call(func=ast.Attribute(value=ast.Constant(value=tmpl), attr="format", ctx=ast.Load()), args=msg.args, keywords=msg.keywords)
        return norm.fmt_parts(fake)
    return norm.fmt_parts(msg)


def resolve_str(fn, e, before):
    """string constant value of e: a constant, implicit concatenation, or a name whose latest assignment before `before` (in source order) is one"""
    if isinstance(e, ast.Constant) and isinstance(e.value, str):
        return e.value
    if isinstance(e, ast.Name):
        best = None
        for n in walk_shallow(fn):
            if isinstance(n, ast.Assign) and any(isinstance(t, ast.Name) and t.id == e.id for t in n.targets) and pos(n) <= pos(before):
                if best is None or pos(n) > pos(best):
                    best = n
        if best is not None:
            return resolve_str(fn, best.value, best)
    if isinstance(e, ast.BinOp) and isinstance(e.op, ast.Add):
        a, b = resolve_str(fn, e.left, before), resolve_str(fn, e.right, before)
        if a is not None and b is not None:
            return a + b
    return None


# -------------------------------------------------------------------------------- C10.5 no other exception type on the way
def runtime_slots():
    """attribute names declared in __slots__ along RuleContext -> ParserRuleContext in the installed antlr4 runtime (class layout only)"""
    out = {}
    base = "/venv/lib/python3.12/site-packages/antlr4"
    for rel in ("RuleContext.py", "ParserRuleContext.py", "tree/Tree.py"):
        p = os.path.join(base, rel)
        if not os.path.exists(p):
            continue
        t = ast.parse(open(p).read())
        for c in t.body:
            if isinstance(c, ast.ClassDef):
                for n in c.body:
                    if isinstance(n, ast.Assign) and u(n.targets[0]) == "__slots__":
                        try:
                            v = ast.literal_eval(n.value)
                        except Exception:
                            continue
                        out[c.name] = (v,) if isinstance(v, str) else tuple(v)
    return out


def c10_5(rep, ix, M):
    R = "C10.5"
    rep.rule(R, "syntaxError cannot fail with another exception type: no __dict__ lookups on slotted runtime objects, every accessor used on a typed context exists on that context class, "
                "names used in messages are definitely assigned", floor=15)
    f = ix.func(SYNERR)
    fn = f.node
    slots = runtime_slots()
    rep.extra["runtime_slots"] = {k: list(v) for k, v in slots.items()}
    dd = [n for n in walk_shallow(fn) if isinstance(n, ast.Attribute) and n.attr in ("__dict__", "__getattribute__")] + \
         [n for n in walk_shallow(fn) if isinstance(n, ast.Call) and u(n.func) in ("vars",)]
    for n in dd:
        rep.bad(R, ix.site(f, n), "no attribute of a parse-tree object is looked up through __dict__ (RuleContext declares __slots__ %s: the lookup raises KeyError)" % (slots.get("RuleContext"),),
                "`%s`" % u(n), key="dict|" + u(n))
    if not dd:
        rep.ok(R, ix.site(f), "no __dict__ / vars() lookups in syntaxError (positive control: runtime declares slots %s)" % (slots.get("RuleContext"),))
    rep.check("parentCtx" in (slots.get("RuleContext") or ()), R, "antlr4.RuleContext", "runtime layout as assumed: parentCtx is a slot of RuleContext", key="slots")
    # accessor existence, presence and definite assignment: in syntaxError and in every helper of the error module it could not absorb
    cc = ContextClasses(M.src["py_parser"])
    todo = [f] + [g for q, g in sorted(ix.funcs.items()) if g.mod == f.mod and g.qual != f.qual and q == g.qual and g.qual not in ix.known and not g.name.startswith("__")]
    for g in todo:
        accessor_checks(rep, R, ix, g, M, cc)


def accessor_checks(rep, R, ix, f, M, cc):
    fn = f.node
    ty = Typer(cc, fn).run()
    n_acc = 0
    for node, recv, attr, is_call in ty.accesses:
        for t in sorted(recv):
            if t.startswith("ctx:"):
                n_acc += 1
                lk = cc.lookup(t[4:], attr)
                rep.check(lk is not None, R, ix.site(f, node), "`%s`: %s exists on %s" % (" ".join(u(node).split())[:70], attr, t[4:]),
                          "AttributeError: %s has no member %s" % (t[4:], attr), key="acc|%s.%s" % (t[4:], attr))
            elif t == "term" and is_call:
                from ..py.ctxtypes import GENERIC_TERM
                n_acc += 1
                rep.check(attr in GENERIC_TERM, R, ix.site(f, node), "`%s`: %s exists on TerminalNode" % (" ".join(u(node).split())[:70], attr), key="term|" + attr)
    # presence of dereferenced children on the incomplete trees the listener sees
    nullness(rep, R, ix, f, M, cc, ty)
    table_lookups(rep, R, ix, f)
    # definitely assigned names (simple: a name first bound only inside an if/elif chain without else, used later)
    maybe = possibly_unbound(fn)
    for name, use, why in maybe:
        # accepted idiom: both alternatives of the grammar rule are tested (operation | measure): decided under EXH below
        if name == "op_name" and exhaustive_statement_dispatch(fn, M):
            rep.ok(R, ix.site(f, use), "`%s` is assigned on every grammar alternative of `statement` (operation | measure)" % name)
        else:
            rep.bad(R, ix.site(f, use), "name `%s` is definitely assigned before use" % name, why, key="unbound|" + name)
    if not maybe:
        rep.ok(R, ix.site(f), "all names are definitely assigned before use")


def table_lookups(rep, R, ix, f):
    """a finite literal table subscripted with something taken from the offending input (token text, token type, context) is total only if the
    subscript is guarded: otherwise the report dies with KeyError for the first input outside the table"""
    fn = f.node
    consts = ix.const_env(f.mod)[0]
    parents = {}
    for n in ast.walk(fn):
        for c in ast.iter_child_nodes(n):
            parents[c] = n

    def table(e):
        v = consts.get(e.id) if isinstance(e, ast.Name) else e
        if isinstance(v, ast.Dict) and v.keys and all(isinstance(k, ast.Constant) for k in v.keys):
            return [k.value for k in v.keys]
        return None

    def finite_guard(test, key):
        """values the key is restricted to by `key in (<constants>)` / `key == <constant>` (or-combinations), else None"""
        if isinstance(test, ast.BoolOp) and isinstance(test.op, ast.Or):
            parts = [finite_guard(t, key) for t in test.values]
            return None if any(x is None for x in parts) else [y for x in parts for y in x]
        if isinstance(test, ast.BoolOp) and isinstance(test.op, ast.And):
            parts = [x for x in (finite_guard(t, key) for t in test.values) if x is not None]
            return parts[0] if parts else None
        if isinstance(test, ast.Compare) and len(test.ops) == 1 and u(test.left) == key:
            c = test.comparators[0]
            if isinstance(test.ops[0], ast.Eq) and isinstance(c, ast.Constant):
                return [c.value]
            if isinstance(test.ops[0], ast.In) and isinstance(c, (ast.Tuple, ast.List, ast.Set)) and all(isinstance(e, ast.Constant) for e in c.elts):
                return [e.value for e in c.elts]
        return None

    for n in walk_shallow(fn):
        if not (isinstance(n, ast.Subscript) and isinstance(n.ctx, ast.Load)):
            continue
        keys = table(n.value)
        if keys is None or isinstance(n.slice, (ast.Constant, ast.Slice)):
            continue
        key = u(n.slice)
        tname = u(n.value) if isinstance(n.value, ast.Name) else "<table>"
        verdict = None
        cur = n
        while cur in parents and verdict is None:
            par = parents[cur]
            if isinstance(par, ast.Try) and cur in par.body and any(h.type is None or any(x in u(h.type) for x in ("KeyError", "LookupError", "Exception")) for h in par.handlers):
                verdict = "ok"
            elif isinstance(par, (ast.If, ast.IfExp)) and (cur in par.body if isinstance(par, ast.If) else cur is par.body):
                t = par.test
                for c in ([t] + (list(t.values) if isinstance(t, ast.BoolOp) and isinstance(t.op, ast.And) else [])):
                    if isinstance(c, ast.Compare) and len(c.ops) == 1 and isinstance(c.ops[0], ast.In) and u(c.left) == key and u(c.comparators[0]) in (tname, tname + ".keys()"):
                        verdict = "ok"
                fin = finite_guard(t, key)
                if verdict is None and fin is not None:
                    verdict = "ok" if all(v in keys for v in fin) else "outside:%r" % [v for v in fin if v not in keys][:1]
            cur = par
        site = ix.site(f, n)
        text = " ".join(u(n).split())[:70]
        if verdict == "ok":
            rep.ok(R, site, "`%s`: the lookup in the finite table is guarded" % text)
        else:
            rep.bad(R, site, "`%s`: a lookup in a finite table (%d entries) while reporting an error is guarded by a membership test or a KeyError handler" % (text, len(keys)),
                    "the key `%s` comes from the offending input and nothing restricts it to the table's keys%s: the report ends in KeyError instead of BlackbirdSyntaxError "
                    "(for a token text, e.g. the line end '\\r\\n' or a form feed)" % (key, "" if not verdict else " (%s)" % verdict), key="table|%s|%s" % (tname, key))


def nullness(rep, R, ix, f, M, cc, ty):
    """a dereferenced accessor result must be attached at every position of the context's rule at which an error can be reported
    (positions the caller's prediction has already verified - FIRST_k refinement - are excluded), or be guarded by a truthiness test"""
    from ..gram.firstk import FirstK, positions
    from ..py import exh
    from ..py.ctxtypes import Acc
    from .c02 import guarded_by
    G = M.G
    F = FirstK(G, 2)
    fn = f.node
    acc_of = {id(n): (recv, attr, is_call) for n, recv, attr, is_call in ty.accesses}
    for node, recv, attr, is_call in ty.accesses + or_derefs(fn):
        base = node.func.value if is_call else node.value
        if isinstance(base, ast.BoolOp) and isinstance(base.op, ast.Or):
            # (ctx.a() or ctx.b()).x : some alternative must be attached at every error position
            alts = [b_ for b_ in base.values if isinstance(b_, ast.Call) and isinstance(b_.func, ast.Attribute) and id(b_) in acc_of and not b_.args]
            if len(alts) != len(base.values):
                continue
            cts = set()
            for b_ in alts:
                cts |= {x[4:] for x in acc_of[id(b_)][0] if x.startswith("ctx:")}
            rvs = {u(b_.func.value) for b_ in alts}
            if len(cts) != 1 or rvs != {"ctx"}:
                continue
            X = cts.pop()
            body, where = exh.body_of(G, X)
            if body is None:
                continue
            rule = where.split("#")[0]
            glen = F.guaranteed_prefix(rule)
            names = [acc_of[id(b_)][1] for b_ in alts]
            P = [p for p in positions(G, body) if p[0] in ("token", "decision") and p[2] >= glen]
            missing = [p for p in P if not any(n_ in p[3] for n_ in names)]
            txt = " or ".join("ctx.%s()" % n_ for n_ in names)
            if missing:
                p0 = missing[0]
                rep.bad(R, ix.site(f, node), "one of `%s` is attached whenever the error is reported in a %s" % (txt, X),
                        "an error reported at the %s %s of rule %s (token offset %d) finds none of them attached: AttributeError on None instead of BlackbirdSyntaxError" % (p0[0], p0[1], rule, p0[2]),
                        key="null|%s.%s|or" % (X, "+".join(names)))
            else:
                rep.ok(R, ix.site(f, node), "one of `%s` is attached at all %d error positions of rule %s" % (txt, len(P), rule))
            continue
        if not (isinstance(base, ast.Call) and isinstance(base.func, ast.Attribute) and id(base) in acc_of and not base.args):
            continue
        brecv, battr, _ = acc_of[id(base)]
        cts = [x[4:] for x in brecv if x.startswith("ctx:")]
        if len(cts) != 1:
            continue
        X = cts[0]
        lk = cc.lookup(X, battr)
        if not isinstance(lk, Acc) or lk.multi != "single":
            continue
        body, where = exh.body_of(G, X)
        if body is None or battr not in exh.names_in(body):
            continue
        txt = "%s.%s()" % (u(base.func.value), battr)
        site = ix.site(f, node)
        if guarded_by(fn, node, txt):
            rep.ok(R, site, "`%s` is dereferenced under a test that establishes its presence" % txt)
            continue
        rv = base.func.value
        rule = where.split("#")[0]
        if isinstance(rv, ast.Name):
            glen = F.guaranteed_prefix(rule)
            pos = positions(G, body)
            if rv.id == "ctx":
                P = [p for p in pos if p[0] in ("token", "decision") and p[2] >= glen]
                missing = [p for p in P if battr not in p[3]]
                role = "the context in which the error is reported"
            else:
                P = [p for p in pos if p[0] == "call" and p[2] + p[4] > glen]
                missing = [p for p in P if battr not in p[3] and p[1] != battr]
                role = "an ancestor of the context in which the error is reported"
            if missing:
                p0 = missing[0]
                rep.bad(R, site, "`%s` is attached whenever %s is a %s" % (txt, role, X),
                        "an error reported at the %s %s of rule %s (token offset %d) finds %s not yet attached: AttributeError on None instead of BlackbirdSyntaxError" % (p0[0], p0[1], rule, p0[2], battr),
                        key="null|%s.%s|%s" % (X, battr, rv.id))
            else:
                rep.ok(R, site, "`%s` is attached at all %d error positions of rule %s (the first %d token(s) are verified by the caller's prediction)" % (txt, len(P), rule, glen))
        else:
            # receiver is itself an accessor result: a completed child; every mandatory child of its rule is attached
            prof = exh.profiles(body)
            ok = all(battr in p for p in prof)
            rep.check(ok, R, site, "`%s`: %s is present in every complete %s node" % (txt, battr, where), key="null|%s.%s|child" % (X, battr))


def or_derefs(fn):
    """(node, set(), attr, is_call) for attribute accesses / method calls whose receiver is `a or b`"""
    out = []
    for n in walk_shallow(fn):
        if isinstance(n, ast.Call) and isinstance(n.func, ast.Attribute) and isinstance(n.func.value, ast.BoolOp):
            out.append((n, set(), n.func.attr, True))
    return out


def possibly_unbound(fn):
    """names bound only under a condition (if without else covering) and read later outside that condition"""
    out = []
    params = {a.arg for a in fn.args.args}

    def bound_in(stmts):
        """names definitely bound after executing stmts (if it completes)"""
        b = set()
        for s in stmts:
            if isinstance(s, ast.Assign):
                for t in s.targets:
                    for x in ast.walk(t):
                        if isinstance(x, ast.Name):
                            b.add(x.id)
            elif isinstance(s, ast.If):
                a1, a2 = bound_in(s.body), bound_in(s.orelse)
                t1, t2 = always_raises(s.body), always_raises(s.orelse) if s.orelse else False
                if t1 and t2:
                    pass
                elif t1:
                    b |= a2
                elif t2:
                    b |= a1
                else:
                    b |= (a1 & a2)
            elif isinstance(s, (ast.For, ast.While)):
                pass
        return b

    def scan(stmts, bound):
        for s in stmts:
            uses = []
            if isinstance(s, ast.If):
                uses = [x for x in ast.walk(s.test) if isinstance(x, ast.Name)]
            elif isinstance(s, (ast.While,)):
                uses = [x for x in ast.walk(s.test) if isinstance(x, ast.Name)]
            elif not isinstance(s, (ast.For, ast.Try, ast.With)):
                uses = [x for x in ast.walk(s) if isinstance(x, ast.Name) and isinstance(x.ctx, ast.Load)]
            for x in uses:
                if x.id in maybe_names and x.id not in bound and x.id not in params:
                    out.append((x.id, x, "bound only on some paths before line %d" % x.lineno))
            if isinstance(s, ast.If):
                scan(s.body, set(bound))
                scan(s.orelse, set(bound))
            elif isinstance(s, (ast.For, ast.While)):
                scan(s.body, set(bound))
            elif isinstance(s, ast.Try):
                scan(s.body, set(bound))
                for h in s.handlers:
                    scan(h.body, set(bound))
            bound |= bound_in([s])

    all_assigned = set()
    for n in ast.walk(fn):
        if isinstance(n, ast.Assign):
            for t in n.targets:
                for x in ast.walk(t):
                    if isinstance(x, ast.Name):
                        all_assigned.add(x.id)
    maybe_names = all_assigned
    scan(fn.body, set())
    # de-duplicate by name
    seen, res = set(), []
    for name, use, why in out:
        if name not in seen:
            seen.add(name)
            res.append((name, use, why))
    return res


def exhaustive_statement_dispatch(fn, M):
    """`if ctx.operation(): op_name = ... elif ctx.measure(): op_name = ...` covers both alternatives of statement's first element"""
    G = M.G
    first = G.R["statement"].body.alts[0].items[0]
    alts = set()
    from ..gram.g4 import Alt, Ref
    if isinstance(first, Alt):
        for a in first.alts:
            if len(a.items) == 1 and isinstance(a.items[0], Ref):
                alts.add(a.items[0].name)
    tested = set()
    for n in ast.walk(fn):
        if isinstance(n, ast.If) and any(isinstance(x, ast.Assign) and any(isinstance(t, ast.Name) and t.id == "op_name" for t in x.targets) for x in n.body):
            t = n.test
            if isinstance(t, ast.Call) and isinstance(t.func, ast.Attribute) and u(t.func.value) == "ctx":
                tested.add(t.func.attr)
    return bool(alts) and alts <= tested
