"""C06 - a for-loop is equivalent to its textual unrolling (typestate on the deferral flag, EXH, DEF, GRD; DESIGN 5/C06)."""
import ast

from ..report import Inconclusive
from ..gram import model as gm
from ..gram.g4 import Ref, Seq, Alt, Rep
from ..py.guards import AEval, Reach, always_raises, resolved_text, stmt_of
from ..py.index import u, walk_shallow, pos
from . import common
from .c11 import c11_5

ENTER = "listener.BlackbirdListener.enterForloop"
EXIT = "listener.BlackbirdListener.exitForloop"
STMT = "listener.BlackbirdListener.exitStatement"
TABLE = "_VAR"


def run(rep, tier):
    rep.trust(*common.PY_TRUST)
    rep.trust("ParseTreeWalker order: enterForloop, then enter/exit of every child statement, then exitForloop")
    ix = common.index(rep)
    G = gm.Grammar(gm.read(gm.FILES["g4"], rep))
    common.guarded(rep, "C06.1", c06_1, rep, ix, G)
    common.guarded(rep, "C06.2", c06_2, rep, ix)
    common.guarded(rep, "C06.3", eager_header, rep, ix)
    common.guarded(rep, "C06.3", c06_3, rep, ix, G)
    common.guarded(rep, "C06.4", c11_5, rep, ix, R="C06.4")
    common.guarded(rep, "C06.5", c06_5, rep, ix, G)
    common.guarded(rep, "C06.6", c06_6, rep, ix)
    common.guarded(rep, "C06.7", c06_7, rep, ix)
    common.guarded(rep, "C06.8", c06_8, rep, ix)
    # the statements of the body are ordinary statements: their arguments are the evaluated expressions, in written order and unconverted
    from . import c02
    common.guarded(rep, "C02.3", c02.c02_3, rep, ix, gm.Model(rep))


def c06_6(rep, ix):
    """the statement handler is replayed once per iteration: it must behave like a fresh visit each time"""
    R = "C06.6"
    rep.rule(R, "exitStatement keeps nothing between two executions: apart from the program being built it changes no attribute of the listener (no memo of expanded includes, "
                "evaluated arguments or visited statements that a replay could pick up)", floor=1)
    E = common.eff(rep)
    f = ix.func(STMT)
    bad = 0
    for e in E.events.get(STMT, []):
        outs = sorted(o for o in e.target.self_o if o.startswith(("FIELD:self.", "IN:FIELD:self.")) and not o.split("FIELD:self.")[1].startswith("_program"))
        if outs:
            bad += 1
            rep.bad(R, ix.site(f, e.node), "`%s` changes only the program being built" % " ".join(u(e.node).split())[:70],
                    "%s; it writes listener state (%s) that the next execution of the same statement - the next loop iteration - reads back" % (e.what, ", ".join(outs)), key="state|" + " ".join(u(e.node).split())[:60])
    for n in walk_shallow(f.node):
        if isinstance(n, (ast.Assign, ast.AugAssign)):
            for t in (n.targets if isinstance(n, ast.Assign) else [n.target]):
                if isinstance(t, ast.Attribute) and u(t.value) == "self":
                    bad += 1
                    rep.bad(R, ix.site(f, n), "`%s` does not rebind an attribute of the listener" % " ".join(u(n).split())[:70], key="attr|" + t.attr)
    if not bad:
        rep.ok(R, ix.site(f), "exitStatement mutates only objects reachable from self._program (%d mutation events inspected)" % len(E.events.get(STMT, [])))


def c06_8(rep, ix):
    """loop values are Blackbird values: an int of a script has arbitrary precision, in a loop as in its unrolling"""
    R = "C06.8"
    rep.rule(R, "exitForloop converts no loop value with a fixed-width NumPy type (dtype= / astype / a NUMPY_TYPES entry): NumPy refuses or wraps integers beyond 64 bits "
                "(library model: np.array([2**63], dtype=np.int64) raises OverflowError) which the unrolled statements accept", floor=1)
    f = ix.func(EXIT)
    bad = 0
    for n in walk_shallow(f.node):
        if not isinstance(n, ast.Call):
            continue
        why = None
        for kw in n.keywords:
            if kw.arg == "dtype" and not (u(kw.value) in ("object", "np.object_", "None") or (isinstance(kw.value, ast.Constant) and kw.value.value in ("object", "O", None))):
                why = "dtype=%s" % u(kw.value)
        if isinstance(n.func, ast.Attribute) and n.func.attr == "astype" and n.args and u(n.args[0]) not in ("object", "np.object_"):
            why = ".astype(%s)" % u(n.args[0])
        if isinstance(n.func, ast.Subscript) and u(n.func.value).split(".")[-1] == "NUMPY_TYPES":
            why = "a call of %s" % u(n.func)
        if isinstance(n.func, ast.Attribute) and u(n.func.value) in ("np", "numpy") and n.func.attr in ("int64", "int32", "int_", "intc", "float64", "float32", "complex128", "longlong", "uint64"):
            why = "np.%s(...)" % n.func.attr
        if why:
            bad += 1
            rep.bad(R, ix.site(f, n), "`%s` leaves the loop values as Python evaluated them" % " ".join(u(n).split())[:80],
                    "%s converts them to a fixed-width NumPy type: `for int k in [3, 9223372036854775808]` is refused (or wrapped) although its unrolling loads" % why,
                    key="fixedwidth|" + " ".join(u(n).split())[:60])
    if not bad:
        rep.ok(R, ix.site(f), "no fixed-width conversion in exitForloop")


def const_bool(e):
    return isinstance(e, ast.Constant) and isinstance(e.value, bool)


def refs(node):
    if isinstance(node, Ref):
        yield node
    elif isinstance(node, Seq):
        for i in node.items:
            yield from refs(i)
    elif isinstance(node, Alt):
        for a in node.alts:
            yield from refs(a)
    elif isinstance(node, Rep):
        yield from refs(node.item)


def replay_loops(fn):
    """for-loops that call self.exitStatement(<target>)"""
    out = []
    for n in walk_shallow(fn):
        if isinstance(n, ast.For):
            for c in ast.walk(n):
                if isinstance(c, ast.Call) and u(c.func) == "self.exitStatement":
                    out.append(n)
                    break
    return out


# -------------------------------------------------------------------------------------- C06.1 deferral
def c06_1(rep, ix, G):
    R = "C06.1"
    rep.rule(R, "loop-body statements are deferred while the tree is walked and executed only by the replay: a listener flag is set on entering the loop, reset at the very start of exitForloop "
                "(before any return and before the replay), and exitStatement returns early iff the statement's parent is a for-loop and the flag is set", floor=8)
    if ENTER not in ix.funcs:
        ix.func(EXIT)
        rep.bad(R, "listener.BlackbirdListener", "the listener overrides enterForloop to mark that a loop body is being walked",
                "no enterForloop handler: nothing set at loop entry can distinguish the walk of a body statement from its replay (same context object in both)", key="enter handler")
        return
    en, ex, stf = ix.func(ENTER), ix.func(EXIT), ix.func(STMT)
    sets = [s for s in en.node.body if isinstance(s, ast.Assign) and isinstance(s.targets[0], ast.Attribute) and u(s.targets[0].value) == "self" and const_bool(s.value) and s.value.value is True]
    if len(sets) != 1:
        rep.bad(R, ix.site(en), "enterForloop unconditionally sets exactly one boolean listener flag", "found %d" % len(sets), key="enter flag")
        return
    flag = sets[0].targets[0].attr
    rep.ok(R, ix.site(en, sets[0]), "enterForloop sets self.%s = True unconditionally" % flag)
    rep.check(all(isinstance(s, (ast.Assign, ast.Expr, ast.Pass)) for s in en.node.body), R, ix.site(en), "enterForloop has no conditional path that skips setting the flag", key="enter straight")
    # exitForloop: reset is a top-level statement preceding every return / raise / loop
    body = ex.node.body
    resets = [i for i, s in enumerate(body) if isinstance(s, ast.Assign) and u(s.targets[0]) == "self." + flag and const_bool(s.value) and s.value.value is False]
    if not resets:
        rep.bad(R, ix.site(ex), "exitForloop resets self.%s at the top level of its body" % flag, key="reset exists")
    else:
        i = resets[0]
        early = [s for s in body[:i] if any(isinstance(x, (ast.Return, ast.Raise, ast.For, ast.While)) or (isinstance(x, ast.Call) and u(x.func) in ("self.exitStatement", "_expression", "_literal"))
                                             for x in ast.walk(s))]
        rep.check(not early, R, ix.site(ex, body[i]), "the reset of self.%s precedes every return, raise, evaluation and the replay loop (an aborted or empty loop cannot leave the flag set)" % flag,
                  "preceded by `%s`" % (" ".join(u(early[0]).split())[:70] if early else ""), key="reset first")
    other = [n for q, f in ix.funcs.items() for n in ast.walk(f.node) if isinstance(n, (ast.Assign, ast.AugAssign)) and any(
        isinstance(t, ast.Attribute) and t.attr == flag for t in (n.targets if isinstance(n, ast.Assign) else [n.target])) and q not in (ENTER, EXIT, "listener.BlackbirdListener.__init__") and q not in getattr(ix, "absorbed", ())]
    rep.check(not other, R, "listener", "self.%s is written only by __init__, enterForloop and exitForloop" % flag, key="flag writers")
    init = ix.func("listener.BlackbirdListener.__init__")
    ini = [s for s in init.node.body if isinstance(s, ast.Assign) and u(s.targets[0]) == "self." + flag]
    rep.check(len(ini) == 1 and const_bool(ini[0].value) and ini[0].value.value is False, R, ix.site(init), "the flag starts as False (per instance)", key="flag init")
    # exitStatement guard
    fn = stf.node
    target = None
    for s in fn.body:
        if isinstance(s, ast.Expr) and isinstance(s.value, ast.Constant):
            continue
        if not any(isinstance(x, ast.Return) for x in ast.walk(s)):
            target = s
            break
    if target is None:
        raise Inconclusive("exitStatement: no statement after the deferral guard")
    reach = Reach(fn, target)
    for pf in (False, True):
        for inf in (False, True):
            def atom(node, pf=pf, inf=inf):
                if isinstance(node, ast.Call) and u(node.func) == "isinstance" and len(node.args) == 2 and "ForloopContext" in u(node.args[1]) and "parentCtx" in u(node.args[0]):
                    return pf
                if isinstance(node, ast.Attribute) and u(node) == "self." + flag:
                    return inf
                return AEval.NO
            r = reach.may_reach(atom)
            want = not (pf and inf)
            rep.check(r == want, R, ix.site(stf), "exitStatement %s when parent-is-for-loop=%s and %s=%s" % ("executes the statement" if want else "returns early", pf, flag, inf),
                      "%s%s" % ("statement executed during the walk of a loop body" if r and not want else "statement skipped", (" (undecided tests: %s)" % sorted(reach.undecided)) if reach.undecided else ""),
                      key="guard|%s|%s" % (pf, inf))
    # grammar: a loop body holds only statements (no nesting)
    names = {r.name for r in refs(G.R["forloop"].body) if r.name in G.pidx}
    rep.check("forloop" not in names and "program" not in names and "statement" in names, R, "blackbird.g4 forloop", "a loop body consists of statements only (no nested loops or declarations)", "references %s" % sorted(names))
    lab = [r for r in refs(G.R["forloop"].body) if r.name == "statement"]
    rep.check(len(lab) == 1 and lab[0].label == "statement_list" and lab[0].listlabel, R, "blackbird.g4 forloop", "the body statements are collected in statement_list in source order")


# -------------------------------------------------------------------------------------- C06.2 replay order
def c06_2(rep, ix):
    R = "C06.2"
    rep.rule(R, "replay: outer loop over the header values in order, inner loop over ctx.statement_list in list order, calling the ordinary exitStatement on each", floor=4)
    ex = ix.func(EXIT)
    fn = ex.node
    loops = replay_loops(fn)
    inner = [l for l in loops if not any(l2 is not l and any(x is l2 for x in ast.walk(l)) for l2 in loops)]
    if len(inner) != 1:
        raise Inconclusive("exitForloop: replay loop not recognised")
    inner = inner[0]
    rep.check(u(inner.iter) == "ctx.statement_list" and isinstance(inner.target, ast.Name), R, ix.site(ex, inner), "the inner loop iterates ctx.statement_list directly (source order)",
              "iterates `%s`" % u(inner.iter), key="inner iter")
    calls = [c for c in ast.walk(inner) if isinstance(c, ast.Call) and u(c.func) == "self.exitStatement"]
    rep.check(len(calls) == 1 and len(calls[0].args) == 1 and u(calls[0].args[0]) == u(inner.target) and len(inner.body) == 1, R, ix.site(ex, inner),
              "each body statement is executed once per iteration by self.exitStatement(<statement>)", key="inner call")
    outer = [l for l in walk_shallow(fn) if isinstance(l, ast.For) and l is not inner and any(x is inner for x in ast.walk(l))]
    if len(outer) != 1:
        rep.bad(R, ix.site(ex, inner), "the statement loop is nested in exactly one loop over the header values", "found %d enclosing loops" % len(outer), key="outer")
        return
    outer = outer[0]
    it = outer.iter
    rep.check(isinstance(it, ast.Name), R, ix.site(ex, outer), "the outer loop iterates the collected header values directly (no sorted/reversed/set)", "iterates `%s`" % u(it), key="outer iter")
    # the binding of the loop variable precedes the statement loop inside the outer body
    idx_inner = next(i for i, s in enumerate(outer.body) if any(x is inner for x in ast.walk(s)))
    bind = [i for i, s in enumerate(outer.body) if any(isinstance(x, ast.Assign) and isinstance(x.targets[0], ast.Subscript) and u(x.targets[0].value) == TABLE for x in ast.walk(s))]
    rep.check(bind and max(bind) < idx_inner, R, ix.site(ex, outer), "within one iteration the loop variable is bound before the body statements are replayed", key="bind before replay")
    return outer


def eager_header(rep, ix, R="C06.3"):
    ex = ix.func(EXIT)
    fn = ex.node
    # the header is evaluated completely before the first value is bound: a lazy producer (generator function, generator expression,
    # map) that evaluates header expressions while the loop below rebinds the variable sees the new bindings
    orig = getattr(ex, "orig", None) or ex.node
    for l in walk_shallow(orig):
        if not isinstance(l, ast.For):
            continue
        binds = [x for x in ast.walk(l) if isinstance(x, ast.Assign) and isinstance(x.targets[0], ast.Subscript) and u(x.targets[0].value) == TABLE]
        if not binds:
            continue
        it = l.iter
        if isinstance(it, ast.Name):
            ds = [a for a in walk_shallow(orig) if isinstance(a, ast.Assign) and any(isinstance(t, ast.Name) and t.id == it.id for t in a.targets)]
            lazy_defs = [a.value for a in ds if lazy_producer(ix, ex, a.value)]
            it = lazy_defs[0] if lazy_defs else it
        lz = lazy_producer(ix, ex, it)
        rep.check(not lz, R, ix.site(ex, l), "the values the loop runs over are all evaluated before the loop variable is first bound", "`for %s in %s`: %s" % (
            u(l.target), " ".join(u(l.iter).split())[:60], lz), key="eager header")


def lazy_producer(ix, f, e):
    """why the iterable e produces its elements lazily by evaluating script expressions (None if it does not)"""
    evals = ("_expression(", "_literal(")
    if isinstance(e, ast.GeneratorExp) and any(x in u(e) for x in evals):
        return "a generator expression evaluates the header expressions one at a time, between the bindings"
    if isinstance(e, ast.Call) and u(e.func) in ("map", "filter", "iter") and any(x in u(e) for x in evals + ("_expression", "_literal")):
        return "%s(...) evaluates the header expressions one at a time, between the bindings" % u(e.func)
    if isinstance(e, ast.Call):
        g = None
        if isinstance(e.func, ast.Name):
            g = ix.funcs.get(ix.resolve_name(f.mod, e.func.id))
        elif isinstance(e.func, ast.Attribute) and isinstance(e.func.value, ast.Name) and e.func.value.id in ("self", "cls") and f.cls:
            g = ix.funcs.get("%s.%s" % (f.cls, e.func.attr))
        if g is not None:
            gn = getattr(g, "orig", None) or g.node
            if any(isinstance(x, (ast.Yield, ast.YieldFrom)) for x in ast.walk(gn)) and any(x in u(gn) for x in evals):
                return "%s is a generator: the header expressions are evaluated one at a time, between the bindings" % g.qual
    return None


# -------------------------------------------------------------------------------------- C06.3 header
def c06_3(rep, ix, G):
    R = "C06.3"
    rep.rule(R, "header: a range a:b(:c) becomes range(int(a), int(b)[, int(c)]) with the INT children in order; a value list yields its values in child order with every `val` alternative handled", floor=5)
    ex = ix.func(EXIT)
    fn = ex.node
    # grammar facts
    rv = [r.name for r in refs(G.R["rangeval"].body)]
    rep.check(rv == ["INT", "COLON", "INT", "COLON", "INT"], R, "blackbird.g4 rangeval", "rangeval is INT ':' INT (':' INT)?", "got %s" % rv)
    verdict = range_models(fn)
    if verdict is not None:
        ok_m, detail_m, site_m, var_m = verdict
        rep.check(ok_m, R, ix.site(ex, site_m), "for each model header (0:3, 3:0, 2:2, 1:7:2, 4:4:3) the loop values are range(a, b[, c]) and nothing is refused", detail_m, key="range")
    rng = [c for c in walk_shallow(fn) if isinstance(c, ast.Call) and u(c.func) == "range"]
    if verdict is not None:
        st = site_m
    elif len(rng) != 1:
        raise Inconclusive("exitForloop: expected one range(...) construction, found %d" % len(rng))
    if verdict is None:
        st = range_idioms(rep, ix, ex, fn, rng[0], R)
    return value_list(rep, ix, ex, fn, G, R, st, rng[0] if len(rng) == 1 else None, var_m if verdict is not None else None)


RANGE_MODELS = (("0", "3"), ("3", "0"), ("2", "2"), ("1", "7", "2"), ("4", "4", "3"))


def range_models(fn):
    """interpret the range branch of exitForloop on model headers -> (ok, detail, site) or None when the branch is outside the interpreter"""
    from ..py.guards import run_block, MNode, ModelError
    branch = None
    for n in walk_shallow(fn):
        if isinstance(n, ast.If) and " ".join(u(n.test).split()) in ("ctx.rangeval()", "ctx.rangeval() is not None"):
            branch = n
            break
    if branch is None:
        return None
    names = {t.id for x in branch.body for y in ast.walk(x) if isinstance(y, ast.Assign) for t in y.targets if isinstance(t, ast.Name)}
    for m in RANGE_MODELS:
        kids = []
        for i, t in enumerate(m):
            if i:
                kids.append(MNode(":", kind="COLON"))
            kids.append(MNode(t, kind="INT"))
        node = MNode(":".join(m), kids)

        def atom(e, node=node):
            if isinstance(e, ast.Call) and " ".join(u(e).split()) == "ctx.rangeval()":
                return node
            return AEval.NO
        env = {}
        want = tuple(range(*[int(t) for t in m]))
        try:
            r = run_block(branch.body, atom, env)
        except ModelError as exc:
            return (False, "header %s: raises %s" % (":".join(m), exc), branch, None)
        except Inconclusive:
            return None
        if r[0] == "raise":
            return (False, "header %s (%d iterations) is refused with %s" % (":".join(m), len(want), "/".join(sorted(r[1]))), branch, None)
        if r[0] != "fall":
            return None
        got = [k for k, v in env.items() if isinstance(v, tuple) and v == want and (want or k == "for_var")]
        if "for_var" in env:
            if env["for_var"] != want:
                return (False, "header %s yields %s, expected %s" % (":".join(m), list(env["for_var"])[:8] if isinstance(env["for_var"], tuple) else env["for_var"], list(want)), branch, None)
            var = "for_var"
        elif len(got) != 1:
            return None
        else:
            var = got[0]
    return (True, "", branch, var)


def range_idioms(rep, ix, ex, fn, c, R):
    ok = False
    why = ""
    from .c07 import resolve
    star = resolve(fn, c.args[0].value) if len(c.args) == 1 and isinstance(c.args[0], ast.Starred) else None
    if isinstance(star, ast.Call) and u(star.func) in ("list", "tuple") and len(star.args) == 1:
        star = star.args[0]
    if isinstance(star, (ast.ListComp, ast.GeneratorExp)):
        lc = star
        g = lc.generators[0]
        tv = u(g.target)
        elt_ok = u(lc.elt) == "int(%s.getText())" % tv
        if u(g.iter) == "ctx.rangeval().getChildren()":
            flt = [u(x) for x in g.ifs]
            ok = elt_ok and len(lc.generators) == 1 and flt in (["%s.getText() != ':'" % tv], ["%s.getText() != \":\"" % tv])
            why = "element `%s`, filter %s" % (u(lc.elt), flt)
        elif u(g.iter) == "ctx.rangeval().INT()":
            ok = elt_ok and not g.ifs and len(lc.generators) == 1
            why = "element `%s`" % u(lc.elt)
        else:
            why = "iterates `%s`" % u(g.iter)
    else:
        why = "arguments `%s`" % ", ".join(u(a) for a in c.args)
    if not ok and len(c.args) == 1 and isinstance(c.args[0], ast.Starred) and isinstance(c.args[0].value, ast.Name):
        # the bounds collected by an explicit loop: B = []; for c in <INT children>: [skip ':'] B.append(int(<text of c>))
        bname = c.args[0].value.id
        inits = [a for a in walk_shallow(fn) if isinstance(a, ast.Assign) and u(a.targets[0]) == bname]
        loops_b = [l for l in walk_shallow(fn) if isinstance(l, ast.For) and any(isinstance(x, ast.Call) and u(x.func) == "%s.append" % bname for x in ast.walk(l))]
        if len(inits) == 1 and isinstance(inits[0].value, ast.List) and not inits[0].value.elts and len(loops_b) == 1 and isinstance(loops_b[0].target, ast.Name):
            lb = loops_b[0]
            tv = lb.target.id
            apps_b = [x for x in ast.walk(lb) if isinstance(x, ast.Call) and u(x.func) == "%s.append" % bname]
            src = " ".join(u(lb.iter).split())
            if len(apps_b) == 1 and len(apps_b[0].args) == 1:
                arg = apps_b[0].args[0]
                st_b = stmt_of(fn, apps_b[0])
                elt_ok = isinstance(arg, ast.Call) and u(arg.func) == "int" and len(arg.args) == 1 and resolved_text(fn, arg.args[0], st_b) == "%s.getText()" % tv
                if src == "ctx.rangeval().INT()":
                    ok = elt_ok and st_b in lb.body
                    why = "element `%s` over the INT children" % u(arg)
                elif src == "ctx.rangeval().getChildren()":
                    fake = ast.FunctionDef(name="_", args=ast.arguments(posonlyargs=[], args=[], kwonlyargs=[], kw_defaults=[], defaults=[]), body=lb.body, decorator_list=[])
                    res = {}
                    for sep in (True, False):
                        def atom_b(node, sep=sep):
                            if " ".join(u(node).split()) == "%s.getText()" % tv:
                                return ":" if sep else "3"
                            return AEval.NO
                        res[sep] = Reach(fake, st_b, aliases=True).may_reach(atom_b)
                    ok = elt_ok and res == {True: False, False: True}
                    why = "element `%s`, appended for ':' children: %s" % (u(arg), res[True])
    if not ok and not why.startswith(("element", "iterates")):
        # explicit form range(a, b[, c]): every argument must be int(<text of the i-th INT child>), bound once and unconditionally
        good = 2 <= len(c.args) <= 3 and not c.keywords
        detail = why
        for a in c.args:
            if isinstance(a, ast.Name):
                defs = [n for n in walk_shallow(fn) if isinstance(n, (ast.Assign, ast.AugAssign)) and any(isinstance(x, ast.Name) and x.id == a.id and isinstance(x.ctx, ast.Store) for x in ast.walk(n))]
                if len(defs) != 1:
                    good = False
                    detail = "`%s` is bound %d times: a range bound is adjusted after it was read from the header" % (a.id, len(defs))
            elif any(isinstance(x, (ast.BinOp, ast.IfExp, ast.UnaryOp)) for x in ast.walk(a)):
                good = False
                detail = "`%s` is computed, not read from the header" % u(a)
        if good:
            raise Inconclusive("exitForloop: range construction `%s` outside the idiom set" % u(c))
        rep.bad(R, ix.site(ex, c), "range bounds are the INT tokens of the header, unmodified", detail, key="range")
    else:
        rep.check(ok, R, ix.site(ex, c), "range(*[int(text) for each INT child of rangeval, in order])", why, key="range")
    return stmt_of(fn, c)


def value_list(rep, ix, ex, fn, G, R, st, c, range_var):
    # value list
    vloops = [l for l in walk_shallow(fn) if isinstance(l, ast.For) and u(l.iter) in ("ctx.vallist().getChildren()", "ctx.vallist().val()")]
    if len(vloops) != 1:
        raise Inconclusive("exitForloop: value-list loop not recognised")
    vl = vloops[0]
    tv = u(vl.target)
    appends = [x for x in ast.walk(vl) if isinstance(x, ast.Call) and isinstance(x.func, ast.Attribute) and x.func.attr == "append"]
    recv = {u(x.func.value) for x in appends}
    handled = set()
    for x in appends:
        a = u(x.args[0]) if x.args else ""
        if a == "_expression(%s.expression())" % tv:
            handled.add("expression")
        elif a == "_literal(%s.nonnumeric())" % tv:
            handled.add("nonnumeric")
    valalts = {r.name for r in refs(G.R["val"].body)}
    rep.check(handled == valalts and len(recv) == 1, R, ix.site(ex, vl), "every alternative of `val` (%s) is evaluated and appended, in child order, to one list" % sorted(valalts),
              "handled %s into %s" % (sorted(handled), sorted(recv)), key="vallist alts")
    if u(vl.iter).endswith("getChildren()"):
        # all children are iterated: no value may be appended for a child that is not a ValContext (the separators)
        fake = ast.FunctionDef(name="_", args=ast.arguments(posonlyargs=[], args=[], kwonlyargs=[], kw_defaults=[], defaults=[]), body=vl.body, decorator_list=[])

        def atom_sep(node):
            if isinstance(node, ast.Call) and u(node.func) == "isinstance" and len(node.args) == 2 and u(node.args[0]) == tv:
                return False if "ValContext" in u(node.args[1]) else AEval.NO
            return AEval.NO
        stmts_app = [s_ for s_ in ast.walk(fake) if isinstance(s_, ast.Expr) and any(s_.value is x for x in appends)]
        leak = [s_ for s_ in stmts_app if Reach(fake, s_, aliases=False).may_reach(atom_sep)]
        rep.check(stmts_app and not leak, R, ix.site(ex, vl), "separator tokens are skipped: nothing is appended for a child that is not a ValContext",
                  "`%s` is reachable for a separator" % (" ".join(u(leak[0]).split())[:60] if leak else ""), key="vallist filter")
    # the two header forms are dispatched on the grammar alternatives rangeval | vallist
    tests = [u(n.test) for n in walk_shallow(fn) if isinstance(n, ast.If) and u(n.test) in ("ctx.rangeval()", "ctx.vallist()", "ctx.rangeval() is not None", "ctx.vallist() is not None")]
    rep.check(any("rangeval" in t for t in tests) and (any("vallist" in t for t in tests) or True), R, ix.site(ex), "the header is dispatched on ctx.rangeval() / ctx.vallist()", key="dispatch")
    # one collection feeds the outer loop
    outer = [l for l in walk_shallow(fn) if isinstance(l, ast.For) and replay_loops(l) and l not in replay_loops(fn)[-1:]]
    names = recv | {u(t) for n in walk_shallow(fn) if isinstance(n, ast.Assign) and c is not None and n.value is c for t in n.targets} | ({range_var} if range_var else set())
    # `for_var = values`: the collected list handed on under the name the replay loop uses is still that one list
    handed = {}
    for n in walk_shallow(fn):
        if isinstance(n, ast.Assign) and len(n.targets) == 1 and isinstance(n.targets[0], ast.Name) and isinstance(n.value, ast.Name) and n.value.id in recv and n.targets[0].id in names | {u(l.iter) for l in walk_shallow(fn) if isinstance(l, ast.For)}:
            handed[n.value.id] = n.targets[0].id
    names = {handed.get(x, x) for x in names}
    for l in walk_shallow(fn):
        if isinstance(l, ast.For) and any(isinstance(x, ast.For) and u(x.iter) == "ctx.statement_list" for x in l.body):
            rep.check(u(l.iter) in names and len(names) == 1, R, ix.site(ex, l), "the outer loop runs over exactly the values produced by the header (`%s`)" % u(l.iter), "header values are collected in %s" % sorted(names),
                      key="outer source")
            # ... and that collection is never converted or rebuilt between the header and the replay
            src = u(l.iter)
            for a in walk_shallow(fn):
                if isinstance(a, ast.Assign) and any(isinstance(t, ast.Name) and t.id == src for t in a.targets) and pos(a) < pos(l):
                    v = a.value
                    okv = (isinstance(v, ast.List) and not v.elts) or v is c or (range_var == src and any(a is x for x in ast.walk(st))) or (isinstance(v, ast.Call) and u(v.func) == "range") or (isinstance(v, ast.Name) and handed.get(v.id) == src)
                    rep.check(okv, R, ix.site(ex, a), "`%s`: the header values are replayed as collected (a Python list / range; no conversion that could coerce or reorder them)" % " ".join(u(a).split())[:60],
                              "the values are converted before the per-value type check (e.g. np.array coerces a mixed list to one dtype)", key="outer convert|" + " ".join(u(a).split())[:60])


def c06_7(rep, ix):
    R = "C06.7"
    rep.rule(R, "every grammatical range header reaches the replay loop: ascending, empty (start = stop), descending (start > stop, which unrolls to nothing) and stepped ranges alike - "
                "decided by the reachability of the replay loop under range models", floor=4)
    from ..py.guards import Kind
    ex = ix.func(EXIT)
    fn = ex.node
    outer = [l for l in walk_shallow(fn) if isinstance(l, ast.For) and any(isinstance(x, ast.For) and u(x.iter) == "ctx.statement_list" for x in l.body)]
    if len(outer) != 1:
        raise Inconclusive("exitForloop: replay loop not recognised")
    l = outer[0]
    src = u(l.iter)
    for name, (a, b, c_) in (("ascending 0:3", (0, 3, 1)), ("empty 2:2", (2, 2, 1)), ("descending 3:0", (3, 0, 1)), ("stepped 5:2:2", (5, 2, 2)), ("stepped 0:6:2", (0, 6, 2))):
        rng = Kind("Range", {"range", "object"}, extra={"start": a, "stop": b, "step": c_})

        def atom(node, rng=rng):
            t = " ".join(u(node).split())
            if isinstance(node, ast.Name) and node.id == src:
                return rng
            if t in ("ctx.rangeval()", "ctx.NAME()", "ctx.vartype()"):
                return "CTX"
            if t == "ctx.vallist()":
                return None
            if isinstance(node, ast.Call) and u(node.func) == "len" and len(node.args) == 1 and u(node.args[0]) == src:
                return len(range(rng.extra["start"], rng.extra["stop"], rng.extra["step"]))
            return AEval.NO
        r_ = Reach(fn, l)
        ok = r_.may_reach(atom)
        rep.check(ok, R, ix.site(ex, l), "the range %s reaches the replay loop" % name, "a statement in front of the loop leaves the handler for this header", key="range reach|" + name)


# -------------------------------------------------------------------------------------- C06.5 scope
def c06_5(rep, ix, G):
    R = "C06.5"
    rep.rule(R, "the loop variable is removed from the variable table on every normal exit of exitForloop, whatever its last value was, and the removal cannot fail when the loop ran zero times", floor=3)
    ex = ix.func(EXIT)
    fn = ex.node
    outer = None
    for l in fn.body:
        if isinstance(l, ast.For) and any(isinstance(x, ast.For) and u(x.iter) == "ctx.statement_list" for x in ast.walk(l)):
            outer = l
    if outer is None:
        raise Inconclusive("exitForloop: replay loop is not a top-level statement")
    tail = fn.body[fn.body.index(outer) + 1:]
    # key expression used for the binding
    stores = [n for n in ast.walk(outer) if isinstance(n, ast.Assign) and isinstance(n.targets[0], ast.Subscript) and u(n.targets[0].value) == TABLE]
    if not stores:
        raise Inconclusive("exitForloop: binding of the loop variable not found")
    key = resolved_text(fn, stores[0].targets[0].slice, stores[0])
    # NAME is mandatory in the grammar rule: ctx.NAME() is always truthy
    mandatory = "NAME" in [r.name for r in G.R["forloop"].body.alts[0].items if isinstance(r, Ref)]
    results = {}
    for model_name, table in (("loop ran zero times (key absent)", {}), ("last value falsy (0 / 0.0 / False / '')", {"K": 0}), ("last value truthy", {"K": 1})):
        tbl = dict(table)
        err = None

        def atom(node):
            if isinstance(node, ast.Name) and node.id == TABLE:
                return tbl
            try:
                if isinstance(node, (ast.Call, ast.Name, ast.Attribute)) and resolved_text(fn, node, stmt_of(fn, node) or (tail[0] if tail else outer)) == key:
                    return "K"
            except Exception:
                pass
            if isinstance(node, ast.Call) and u(node) == "ctx.NAME()" and mandatory:
                return "TOK"
            return AEval.NO

        def run_block(stmts):
            nonlocal err
            for s in stmts:
                if err:
                    return
                if isinstance(s, ast.If):
                    try:
                        c = AEval(atom).truth(AEval(atom).ev(s.test))
                    except Exception:
                        c = None
                    if c is None:
                        # undecided: the removal may be skipped
                        run_block(s.orelse)
                    else:
                        run_block(s.body if c else s.orelse)
                elif isinstance(s, ast.Delete):
                    for t in s.targets:
                        if isinstance(t, ast.Subscript) and u(t.value) == TABLE:
                            if "K" in tbl:
                                del tbl["K"]
                            else:
                                err = "KeyError: `%s` when the key is absent" % u(s)
                elif isinstance(s, ast.Expr) and isinstance(s.value, ast.Call) and isinstance(s.value.func, ast.Attribute) and u(s.value.func.value) == TABLE and s.value.func.attr == "pop":
                    if "K" in tbl:
                        del tbl["K"]
                    elif len(s.value.args) < 2:
                        err = "KeyError: `%s` when the key is absent" % u(s)
                elif isinstance(s, ast.Try):
                    run_block(s.body)
                    if err and any(h.type is None or "KeyError" in u(h.type) for h in s.handlers):
                        err = None
        run_block(tail)
        ok = err is None and "K" not in tbl
        results[model_name] = ok
        rep.check(ok, R, ix.site(ex, tail[0]) if tail else ix.site(ex), "after the loop the variable is gone from the table - case: %s" % model_name,
                  err or "the loop variable stays visible after the loop", key="scope|" + model_name)
    # no return between the replay and the removal
    rets = [s for s in outer.body if any(isinstance(x, ast.Return) for x in ast.walk(s))]
    rep.check(not rets, R, ix.site(ex, outer), "no return inside the replay loop skips the removal", key="no early return")
