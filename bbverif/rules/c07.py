"""C07 - calling an included program equals inlining it with renamed modes (EFF, ORD, GRD; DESIGN 5/C07)."""
import ast
import itertools

from ..report import Inconclusive
from ..py.eff import FRESH, nonfresh, base_origin
from ..py.guards import AEval, Reach, always_raises
from ..py.index import u, walk_shallow, pos
from . import common
from .c19 import get_ord

HANDLER = "listener.BlackbirdListener.exitStatement"
INCLUDE = "listener.BlackbirdListener.exitInclude"


def run(rep, tier):
    rep.trust(*common.PY_TRUST)
    E = common.eff(rep)
    ix = E.ix
    common.guarded(rep, "C07.1", c07_1, rep, ix)
    live = sorted(g for g in E.summ[INCLUDE].reads_globals if g in E.written_globals)
    rep.check(not live, "C07.1", ix.site(ix.func(INCLUDE)), "exitInclude consults no module-level state that is written anywhere in the package (an include is resolved from the file system on every load)",
              "reads %s" % live, key="include|globals")
    common.guarded(rep, "C07.2", c07_2, rep, ix, get_ord(rep))
    common.guarded(rep, "C07.3", c07_3, rep, E, ix)
    common.guarded(rep, "C07.4", c07_4, rep, ix)
    common.guarded(rep, "C07.5", c07_5, rep, ix)
    common.guarded(rep, "C07.6", c07_6, rep, ix)
    common.guarded(rep, "C07.7", c07_7, rep, ix)
    # a template include is instantiated for the call (`bb(**kwargs)`): the instantiation rules are part of "equals inlining it"
    from . import c04
    sites = common.guarded(rep, "C04.3", c04.c04_3, rep, ix)
    if sites:
        common.guarded(rep, "C04.4", c04.c04_4, rep, ix, sites)
        common.guarded(rep, "C04.8", c04.c04_8, rep, ix, sites)
    common.guarded(rep, "C04.7", c04.c04_7, rep, ix)
    common.guarded(rep, "C04.9", c04.c04_9, rep, ix)       # values reach the instantiated program as they were passed
    # whether the included program is a template is decided from its reported parameters: the p-type filter drops exactly p<digits> names
    from . import c15
    common.guarded(rep, "C15.1", c15.c15_1, rep, ix, True)
    # the included file is loaded as a program of its own: nothing of it stays in the module tables of the including load, and it sees none of them
    from . import c05
    from ..gram import model as gm
    c05.shared_tables(rep, ix, gm.Grammar(gm.read(gm.FILES["g4"], rep)))


# ---------------------------------------------------------------------------------------- helpers
def assignments(fn, name):
    return [n for n in walk_shallow(fn) if isinstance(n, ast.Assign) and any(isinstance(t, ast.Name) and t.id == name for t in n.targets)]


def resolve(fn, e, depth=0):
    """look through single-assignment local aliases"""
    if isinstance(e, ast.Name) and depth < 5:
        a = assignments(fn, e.id)
        if len(a) == 1:
            return resolve(fn, a[0].value, depth + 1)
    return e


def calls(fn, pred):
    return [n for n in walk_shallow(fn) if isinstance(n, ast.Call) and pred(n)]


def is_call(e, name):
    return isinstance(e, ast.Call) and (u(e.func) == name or u(e.func).endswith("." + name))


# ---------------------------------------------------------------------------------------- C07.1 path resolution
def c07_1(rep, ix):
    R = "C07.1"
    rep.rule(R, "include paths are resolved relative to the including file: FileStream(join(self._cwd, <text between the quotes>)), _cwd from the constructor argument, "
                "load() and nested includes pass dirname(file); the process working directory is consulted only when no file name exists; no chdir", floor=7)
    f = ix.func(INCLUDE)
    fs = calls(f.node, lambda c: u(c.func).endswith("FileStream"))
    if len(fs) != 1:
        raise Inconclusive("exitInclude: expected exactly one FileStream(...) call, found %d" % len(fs))
    arg = resolve(f.node, fs[0].args[0]) if fs[0].args else None
    ok = is_call(arg, "join") and len(arg.args) == 2 and u(arg.args[0]) == "self._cwd"
    rep.check(ok, R, ix.site(f, fs[0]), "the included file is opened at os.path.join(self._cwd, <name>)", "got `%s`" % (u(arg) if arg is not None else None), key="include|join")
    if ok:
        name = resolve(f.node, arg.args[1])
        # locals inside the name expression (e.g. `quoted = ctx.STR().getText(); ... quoted[1:-1]`) are looked through
        import copy as _copy
        name = _copy.deepcopy(name)

        class _R(ast.NodeTransformer):
            def visit_Name(self, n, depth=[0]):
                if isinstance(n.ctx, ast.Load) and depth[0] < 4:
                    r = resolve(f.node, n)
                    if r is not n and not isinstance(r, ast.Name):
                        depth[0] += 1
                        try:
                            return self.visit(_copy.deepcopy(r))
                        finally:
                            depth[0] -= 1
                return n
        name = _R().visit(name)
        txt = u(name)
        good = ("ctx.STR().getText()" in txt) and (txt.endswith("[1:-1]") or ".strip('\"')" in txt or '.strip("\\"")' in txt or ".replace('\"', '')" in txt)
        rep.check(good, R, ix.site(f, fs[0]), "the file name is the text of the STR token without its quotes", "got `%s`" % txt, key="include|name")
        # the name that is compared for repeated includes and stored is the same joined path
    # nested listener gets dirname(filename)
    ctor = calls(f.node, lambda c: isinstance(c.func, ast.Name) and c.func.id == "BlackbirdListener")
    okc = False
    for c in ctor:
        for k in c.keywords:
            if k.arg == "cwd":
                v = resolve(f.node, k.value)
                if is_call(v, "dirname") and len(v.args) == 1:
                    inner = resolve(f.node, v.args[0])
                    okc = is_call(inner, "join") and u(inner.args[0]) == "self._cwd"
        if c.args:
            v = resolve(f.node, c.args[0])
            if is_call(v, "dirname"):
                inner = resolve(f.node, v.args[0])
                okc = is_call(inner, "join") and u(inner.args[0]) == "self._cwd"
    rep.check(okc, R, ix.site(f), "the nested listener is constructed with cwd = dirname(<path of the included file>)", key="include|nested cwd")
    # constructor
    init = ix.func("listener.BlackbirdListener.__init__")
    # decided on the two models of the argument (a directory was given / none was given): what the constructor leaves in self._cwd
    def final_cwd(model):
        env = {}

        def atom(node):
            t = " ".join(u(node).split())
            if isinstance(node, ast.Name) and node.id == "cwd":
                return env.get("cwd", model)
            if t == "self._cwd" and "self._cwd" in env:
                return env["self._cwd"]
            if t in ("os.getcwd()", "getcwd()", "os.path.abspath('.')", "os.path.abspath(os.curdir)", "os.curdir", "pathlib.Path.cwd()", "Path.cwd()"):
                return "<process working directory>"
            return AEval.NO

        def run(stmts):
            for s_ in stmts:
                if isinstance(s_, ast.Assign) and len(s_.targets) == 1 and " ".join(u(s_.targets[0]).split()) in ("self._cwd", "cwd"):
                    env[" ".join(u(s_.targets[0]).split())] = AEval(atom).ev(s_.value)
                elif isinstance(s_, ast.If):
                    ev = AEval(atom)
                    try:
                        c_ = ev.truth(ev.ev(s_.test))
                    except Exception:
                        # a test about something else: it only matters if one of its branches binds the directory
                        if any(isinstance(x, ast.Attribute) and x.attr == "_cwd" and isinstance(x.ctx, ast.Store) or isinstance(x, ast.Name) and x.id == "cwd" and isinstance(x.ctx, ast.Store)
                               for x in ast.walk(s_)):
                            raise
                        continue
                    run(s_.body if c_ else s_.orelse)
                elif isinstance(s_, (ast.For, ast.While, ast.Try, ast.With)) and any(isinstance(x, ast.Attribute) and x.attr == "_cwd" and isinstance(x.ctx, ast.Store) for x in ast.walk(s_)):
                    raise Inconclusive("__init__: self._cwd is bound inside `%s`" % type(s_).__name__)
        run(init.node.body)
        return env.get("self._cwd", "<unbound>")
    for model, want, what in (("<given directory>", "<given directory>", "a directory was given: includes are resolved against it"),
                              (None, "<process working directory>", "no directory was given: the process working directory is used")):
        try:
            got = final_cwd(model)
        except Inconclusive:
            raise
        except Exception as e_:
            raise Inconclusive("__init__: binding of self._cwd not decided (%s)" % e_)
        rep.check(got == want, R, ix.site(init), "self._cwd after construction - %s" % what, "it holds %s" % (got,), key="init|cwd|%s" % ("given" if model else "none"))
    # load / parse
    ld = ix.func("__init__.load")
    pc = calls(ld.node, lambda c: isinstance(c.func, ast.Name) and c.func.id == "parse")
    okl = False
    if len(pc) == 1:
        kw = {k.arg: k.value for k in pc[0].keywords}
        v = resolve(ld.node, kw.get("cwd")) if kw.get("cwd") is not None else (resolve(ld.node, pc[0].args[2]) if len(pc[0].args) > 2 else None)
        okl = v is not None and is_call(v, "dirname") and len(v.args) == 1 and u(resolve(ld.node, v.args[0])) == ld.params[0]
    rep.check(okl, R, ix.site(ld), "load(filename) parses with cwd = dirname(filename)", key="load|cwd")
    fsl = calls(ld.node, lambda c: u(c.func).endswith("FileStream"))
    rep.check(len(fsl) == 1 and fsl[0].args and u(resolve(ld.node, fsl[0].args[0])) == ld.params[0], R, ix.site(ld), "load(filename) opens exactly that file", key="load|file")
    pr = ix.func("listener.parse")
    lc = calls(pr.node, lambda c: isinstance(c.func, ast.Name) and c.func.id in ("listener", "Listener", "BlackbirdListener"))      # the parameter, or its default read in place
    okp = len(lc) >= 1 and all(any(k.arg == "cwd" and u(k.value) == "cwd" for k in c_.keywords) or (c_.args and u(c_.args[0]) == "cwd") for c_ in lc)
    rep.check(okp, R, ix.site(pr), "parse(data, listener, cwd) constructs the listener with that cwd", key="parse|cwd")
    # no chdir / getcwd elsewhere
    for q, g in ix.funcs.items():
        if q in getattr(ix, "absorbed", ()):
            continue            # a private helper read into its callers: judged where it runs
        for n in ast.walk(g.node):
            if isinstance(n, ast.Call) and u(n.func) in ("os.chdir", "chdir", "os.fchdir"):
                rep.bad(R, ix.site(g, n), "the package never changes the process working directory", u(n), key=q + "|chdir")
            if isinstance(n, ast.Call) and u(n.func) in ("os.getcwd", "getcwd", "os.path.abspath", "abspath", "os.path.realpath", "Path.cwd") and q != "listener.BlackbirdListener.__init__":
                rep.bad(R, ix.site(g, n), "the process working directory is consulted only in the listener constructor's fallback", u(n), key=q + "|getcwd")
    rep.ok(R, "package", "no chdir / stray getcwd in the handwritten modules")


# ---------------------------------------------------------------------------------------- C07.2 mode map in increasing order
def c07_2(rep, ix, O):
    R = "C07.2"
    rep.rule(R, "the included program's modes reach the mode map only in increasing order (any unordered collection, int elements included, at a zip/enumerate/index sink is refuted)", floor=1)
    f = ix.func(HANDLER)
    hits = [x for x in O.findings.get(HANDLER, []) if x.severity in ("sink", "sink-int")]
    for x in hits:
        rep.bad(R, ix.site(f, x.node), "`%s` pairs modes in a defined (sorted) order" % x.text, "%s; source: %s" % (x.sink, x.taint.src), key=x.text)
    # the mode map itself: dict(zip(sorted(<included modes>), <call-site modes>))
    zips = calls(f.node, lambda c: isinstance(c.func, ast.Name) and c.func.id == "zip")
    found = False
    for z in zips:
        srcs = [u(resolve(f.node, a)) for a in z.args]
        if any("modes" in s for s in srcs):
            found = True
            first = resolve(f.node, z.args[0])
            okz = isinstance(first, ast.Call) and u(first.func) == "sorted" and len(first.args) == 1 and not first.keywords and len(z.args) == 2
            second = resolve(f.node, z.args[1]) if len(z.args) == 2 else None
            rep.check(okz, R, ix.site(f, z), "mode map zips sorted(<included program's modes>) (plain increasing order, no key/reverse) with the call-site modes",
                      "got `%s`" % " ".join(u(z).split()), key="zip")
    if not found and not hits:
        raise Inconclusive("exitStatement: mode-map construction (zip over the included program's modes) not recognised")


def c07_7(rep, ix):
    R = "C07.7"
    rep.rule(R, "operations enter the program being built only through exitStatement's dispatch (`if <name> in self._includes`: expansion, else: the operation itself): no other "
                "handler of the listener adds to the operation list, so a call of an included program is expanded wherever it stands (inside a for-loop as well)", floor=2)
    h = ix.func(HANDLER)
    n = 0
    for q, f in sorted(ix.funcs.items()):
        if q != f.qual or f.cls != h.cls or q in getattr(ix, "absorbed", ()):
            continue
        for c in walk_shallow(f.node):
            adds = (isinstance(c, ast.Call) and isinstance(c.func, ast.Attribute) and c.func.attr in ("append", "extend", "insert") and u(c.func.value).endswith("_program._operations")) \
                or (isinstance(c, ast.AugAssign) and u(c.target).endswith("_program._operations"))
            if not adds:
                continue
            n += 1
            if q == HANDLER:
                # under the dispatch on the include table?
                from ..py.guards import path_to
                st = stmt_of_call(f.node, c) if isinstance(c, ast.Call) else c
                conds = [" ".join(u(s_[i_].test).split()) for (s_, i_, fld) in (path_to(f.node.body, st) or []) if isinstance(s_[i_], ast.If)]
                rep.check(any("self._includes" in t_ for t_ in conds), R, ix.site(f, c), "`%s` stands under the dispatch on the include table" % " ".join(u(c).split())[:60],
                          "conditions %s" % conds, key="dispatch|" + " ".join(u(c).split())[:50])
            else:
                rep.bad(R, ix.site(f, c), "only exitStatement adds operations to the program", "`%s` in %s adds operations without the include dispatch: a call of an included program that arrives "
                        "this way stays an unexpanded operation" % (" ".join(u(c).split())[:60], f.name), key="bypass|%s" % q)
    if n < 2:
        raise Inconclusive("exitStatement: the two statements that add operations (expansion / plain operation) not found")


def c07_6(rep, ix):
    R = "C07.6"
    rep.rule(R, "every mode of every expanded operation is replaced by its image under the mode map - decided by evaluating the replacement on a model map that sends a mode to 0, "
                "a mode to itself and a mode to a mode that is itself a key", floor=3)
    f = ix.func(HANDLER)
    fn = f.node
    from ..py.guards import ModelError
    stores = [n for n in walk_shallow(fn) if isinstance(n, ast.Assign) and len(n.targets) == 1 and isinstance(n.targets[0], ast.Subscript)
              and isinstance(n.targets[0].slice, ast.Constant) and n.targets[0].slice.value == "modes"]
    zips = calls(fn, lambda c: isinstance(c.func, ast.Name) and c.func.id == "zip")
    maps = [n for n in walk_shallow(fn) if isinstance(n, ast.Assign) and len(n.targets) == 1 and isinstance(n.targets[0], ast.Name) and any(z is x for z in zips for x in ast.walk(n.value))]
    if len(maps) != 1:
        raise Inconclusive("exitStatement: the mode map is not bound to one local")
    mm = maps[0].targets[0].id
    done = 0
    for st in stores:
        v = st.value
        if isinstance(v, ast.Call) and u(v.func) in ("list", "tuple") and len(v.args) == 1:
            v = v.args[0]
        if not (isinstance(v, (ast.ListComp, ast.GeneratorExp)) and len(v.generators) == 1 and isinstance(v.generators[0].target, ast.Name) and not v.generators[0].ifs):
            continue
        if not any(isinstance(x, ast.Name) and x.id == mm for x in ast.walk(v)):
            continue
        it = " ".join(u(v.generators[0].iter).split())
        rep.check(it.endswith("['modes']") or it.endswith('["modes"]'), R, ix.site(f, st), "the new mode list runs over the operation's own modes, in order", "runs over `%s`" % it, key="modes|iter")
        var = v.generators[0].target.id
        model = {1: 0, 2: 2, 3: 1}
        for m_, want in sorted(model.items()):
            def atom(node, m_=m_):
                if isinstance(node, ast.Name) and node.id == var:
                    return m_
                if isinstance(node, ast.Name) and node.id == mm:
                    return model
                return AEval.NO
            try:
                got = AEval(atom).ev(v.elt)
            except ModelError as e_:
                got = "raises %s" % e_
            except Inconclusive:
                raise
            rep.check(got == want, R, ix.site(f, st), "mode %d of an included operation becomes %d under the map %s" % (m_, want, model), "`%s` gives %r" % (" ".join(u(v.elt).split())[:50], got),
                      key="modes|image|%d" % m_)
            done += 1
    if not done:
        raise Inconclusive("exitStatement: no assignment of the mapped mode list to an expanded operation found")


# ---------------------------------------------------------------------------------------- C07.3 no aliasing across calls
def c07_3(rep, E, ix):
    R = "C07.3"
    rep.rule(R, "in the call-site expansion every mutated object is fresh; objects reachable from the stored includes are never mutated and never stored into the program being built", floor=5)
    f = ix.func(HANDLER)
    INC = ("FIELD:self._includes", "IN:FIELD:self._includes")
    n = 0
    for e in E.events.get(HANDLER, []):
        txt = " ".join(u(e.node).split())[:120]
        tgt_inc = [o for o in e.target.self_o if o in INC]
        rep.check(not tgt_inc, R, ix.site(f, e.node), "`%s` does not mutate the stored include (or anything inside it)" % txt, "%s; target may be %s" % (e.what, tgt_inc), key="mut|" + txt)
        if e.stored is not None:
            leak = [o for o in e.stored.reach if o in INC]
            into_prog = [o for o in e.target.self_o if base_origin(o) in ("FIELD:self._program",)]
            if into_prog:
                rep.check(not leak, R, ix.site(f, e.node), "`%s` stores nothing that is shared with the stored include into the program" % txt,
                          "stored value may contain objects of %s" % leak, key="store|" + txt)
        n += 1
    # the applied program is the registered include or its instantiation for THIS call
    lookups = [n for n in walk_shallow(f.node) if isinstance(n, ast.Assign) and len(n.targets) == 1 and isinstance(n.targets[0], ast.Name) and "self._includes[" in u(n.value)]
    if len(lookups) == 1:
        bbn = lookups[0].targets[0].id
        for n in walk_shallow(f.node):
            if isinstance(n, ast.Assign) and any(isinstance(t, ast.Name) and t.id == bbn for t in n.targets) and n is not lookups[0]:
                v = n.value
                inst = isinstance(v, ast.Call) and isinstance(v.func, ast.Name) and v.func.id == bbn and not v.args and len(v.keywords) == 1 and v.keywords[0].arg is None
                rep.check(inst, R, ix.site(f, n), "`%s`: the program that is expanded is the registered include or its instantiation for this call" % " ".join(u(n).split())[:70],
                          "the expanded program comes from elsewhere (e.g. a cache of earlier instantiations): parameter values of another call can be reused", key="define|" + " ".join(u(n).split())[:70])
        # the instantiation is not conditional on anything but the template checks
        for n in walk_shallow(f.node):
            if isinstance(n, ast.Call) and isinstance(n.func, ast.Name) and n.func.id == bbn and any(k.arg is None for k in n.keywords):
                st = stmt_of_call(f.node, n)
                okst = isinstance(st, ast.Assign) and isinstance(st.targets[0], ast.Name) and st.targets[0].id == bbn
                rep.check(okst, R, ix.site(f, n), "every template call instantiates the include afresh (`%s = %s(**kwargs)`)" % (bbn, bbn), "instantiation result goes to `%s`" % " ".join(u(st).split())[:60],
                          key="instantiate")
    # exitInclude may register, nothing else may touch _includes
    for q, evs in E.events.items():
        if q in (HANDLER, INCLUDE, "listener.BlackbirdListener.__init__"):
            continue
        for e in evs:
            tgt_inc = [o for o in e.target.self_o if o in INC]
            if tgt_inc:
                rep.bad(R, ix.site(ix.funcs[q], e.node), "only exitInclude registers includes", e.what, key=q + "|includes")


def stmt_of_call(fn, node):
    from ..py.guards import stmt_of
    return stmt_of(fn, node)


# ---------------------------------------------------------------------------------------- C07.4 call checks precede expansion
def expansion_stmt(f):
    """the statement that adds the included operations to the program: <...>._operations.extend(...) / += inside the include branch"""
    cands = []
    for n in walk_shallow(f.node):
        if isinstance(n, ast.Expr) and isinstance(n.value, ast.Call) and isinstance(n.value.func, ast.Attribute) and n.value.func.attr in ("extend",) \
                and u(n.value.func.value).endswith("_operations"):
            cands.append(n)
        if isinstance(n, ast.AugAssign) and u(n.target).endswith("_operations"):
            cands.append(n)
    return cands


def c07_4(rep, ix):
    R = "C07.4"
    rep.rule(R, "the expansion of an included program is reachable only when the call has as many modes as the include, and keyword arguments exactly equal to its parameters "
                "(none for a non-template); decided by evaluating the dominating guards on a finite model of (mode counts, has-arguments, parameter set, keyword set)", floor=64)
    f = ix.func(HANDLER)
    cands = expansion_stmt(f)
    if len(cands) != 1:
        raise Inconclusive("exitStatement: expected exactly one expansion statement (extend of _operations), found %d" % len(cands))
    target = cands[0]
    reach = Reach(f.node, target)
    names = ["a", "b", "c"]
    models = []
    for n, m, has in itertools.product((1, 2), (1, 2), (False, True)):
        for P in itertools.chain.from_iterable(itertools.combinations(names[:2], r) for r in range(3)):
            Ks = list(itertools.chain.from_iterable(itertools.combinations(names, r) for r in range(4))) if has else [()]
            for K in Ks:
                models.append(dict(n=n, m=m, has=has, P=frozenset(P), K=frozenset(K)))
    bad = []
    nreach = 0
    for md in models:
        def atom(node, md=md):
            s = u(node)
            if isinstance(node, ast.Attribute) and node.attr == "parameters":
                return md["P"]
            if isinstance(node, ast.Call) and isinstance(node.func, ast.Attribute) and node.func.attr == "is_template" and not node.args:
                return bool(md["P"])
            if isinstance(node, ast.Attribute) and node.attr in ("modes", "_modes"):
                return frozenset(range(md["m"]))
            if isinstance(node, ast.Subscript) and isinstance(node.slice, ast.Constant) and node.slice.value == "modes":
                return tuple(range(md["n"]))
            if isinstance(node, ast.Subscript) and isinstance(node.slice, ast.Constant) and node.slice.value == "kwargs":
                if not md["has"]:
                    raise KeyError("kwargs")
                return {k: 1 for k in md["K"]}
            if isinstance(node, ast.Name) and node.id in ("operation", "op_dict"):
                d = {"op": "inc", "modes": tuple(range(md["n"]))}
                if md["has"]:
                    d["kwargs"] = {k: 1 for k in md["K"]}
                    d["args"] = ()
                return d
            if isinstance(node, ast.Attribute) and node.attr == "_includes":
                return {"inc": 1}
            if isinstance(node, ast.Name) and node.id in ("op_kwargs",):
                return {k: 1 for k in md["K"]}
            if isinstance(node, ast.Name) and node.id in ("modes",):
                return tuple(range(md["n"]))
            return AEval.NO
        r = reach.may_reach(atom)
        required = md["n"] == md["m"] and ((md["has"] and md["P"] and md["P"] == md["K"]) or (not md["has"] and not md["P"]))
        if r:
            nreach += 1
        desc = "call with %d mode(s)%s on an include with %d mode(s) and parameters {%s}" % (
            md["n"], (" and keywords {%s}" % ",".join(sorted(md["K"]))) if md["has"] else " and no arguments", md["m"], ",".join(sorted(md["P"])))
        if r and not required:
            bad.append(desc)
            rep.bad(R, ix.site(f, target), "expansion is not reachable for: " + desc, "no dominating guard raises for this case", key=desc)
        else:
            rep.ok(R, ix.site(f, target), ("expansion reachable, as required, for: " if r else "expansion is not reachable for: ") + desc)
    if reach.undecided:
        rep.note("C07.4: guard expressions treated as undecided (may be true or false): %s" % sorted(reach.undecided))
    if nreach == 0:
        raise Inconclusive("exitStatement: the expansion statement is unreachable in every model (guards not understood)")
    rep.extra["c07_4_models"] = len(models)
    # the exceptions raised by those guards are not swallowed inside the handler
    for n in walk_shallow(f.node):
        if isinstance(n, ast.Try):
            for h in n.handlers:
                if not always_raises(h.body):
                    rep.bad(R, ix.site(f, h), "no exception handler in exitStatement absorbs an error without re-raising", key="swallow")


# ---------------------------------------------------------------------------------------- C07.5 merge / dedupe
def resolved_text_(fn, e, at):
    from ..py.guards import resolved_text
    try:
        return resolved_text(fn, e, at)
    except Exception:
        return " ".join(u(e).split())


def c07_5(rep, ix):
    R = "C07.5"
    rep.rule(R, "nested includes are merged into the outer include table; a repeated include line returns before re-parsing; the expansion looks the include up by the operation name", floor=3)
    f = ix.func(INCLUDE)
    upd = calls(f.node, lambda c: isinstance(c.func, ast.Attribute) and c.func.attr == "update" and u(c.func.value) == "self._includes")
    rep.check(any("_includes" in u(c.args[0]) for c in upd if c.args), R, ix.site(f), "the nested listener's includes are merged into self._includes", key="merge")
    reg = [n for n in walk_shallow(f.node) if isinstance(n, ast.Assign) and isinstance(n.targets[0], ast.Subscript) and u(n.targets[0].value) == "self._includes"]
    okr = len(reg) == 1 and u(reg[0].targets[0].slice).endswith(".name")
    rep.check(okr, R, ix.site(f), "the parsed include is registered under its program name", key="register")
    # early return for an already included file precedes the FileStream
    fs = calls(f.node, lambda c: u(c.func).endswith("FileStream"))
    early = False
    for s in f.node.body:
        if fs and pos(s) < pos(fs[0]) and isinstance(s, (ast.For, ast.If)):
            if any(isinstance(x, ast.Return) for x in ast.walk(s)) and "filename" in u(s):
                early = True
    rep.check(early, R, ix.site(f), "a file that was already included returns before it is parsed again", key="dedupe")
    # ... and an include line is skipped only when THIS listener's table already holds that file: what decides the early return is read from
    # self._includes (a record of visited files kept elsewhere - shared with other listeners, say - does not say the table has the program)
    from ..py.guards import path_to
    for r_ in [x for x in walk_shallow(f.node) if isinstance(x, ast.Return) and (not fs or pos(x) < pos(fs[0]))]:
        conds = []
        for (stmts, i_, fld) in path_to(f.node.body, r_) or []:
            s_ = stmts[i_]
            if isinstance(s_, ast.If):
                conds.append(resolved_text_(f.node, s_.test, s_))
            elif isinstance(s_, ast.For):
                conds.append(resolved_text_(f.node, s_.iter, s_))
        rep.check(any("self._includes" in c_ for c_ in conds), R, ix.site(f, r_), "an include line is skipped only if this listener's own include table already holds the file",
                  "the early return depends on `%s`" % " and ".join(conds)[:100], key="dedupe|own table")
    h = ix.func(HANDLER)
    look = [n for n in walk_shallow(h.node) if isinstance(n, ast.Compare) and len(n.ops) == 1 and isinstance(n.ops[0], ast.In) and u(n.comparators[0]) == "self._includes"]
    rep.check(len(look) >= 1, R, ix.site(h), "a statement is expanded iff its operation name is a registered include", key="lookup")
