"""C09 - programs assembled through the API serialise to valid, equivalent scripts (same T rules as C01 with the API's kind set; DESIGN 5/C09)."""
from . import c01, tser


def run(rep, tier):
    c01.run(rep, tier, prop="C09", extra_kinds=tser.API_EXTRA)
