"""C18 - comments, blank lines, spacing and line-ending style do not change the program.

Decided on the grammar and automata (DESIGN 5/C18): C18.1 skip rules and blank-freedom of token rules,
C18.2 exact NEWLINE / TAB / COMMENT languages, C18.3 NEWLINE-skeleton closure, C18.4 position taint (Python side).
The grammar is tied to what the shipped recognisers execute by re-running C14's A1/A3/A4.
"""
from collections import deque

from ..report import Inconclusive
from ..gram import model as gm, nfa
from ..gram.g4 import Lit, CharSet, Wild, Ref, Seq, Alt, Rep, Not
from . import c14

BLANK, HT, CR, LF = ord(" "), ord("\t"), ord("\r"), ord("\n")


def run(rep, tier):
    rep.trust(*c14.TRUST)
    rep.trust("lexer runtime: longest match, earliest rule wins ties, skipped tokens are not delivered to the parser")
    M = gm.Model(rep)
    c14.a1(rep, M)
    c14.a3(rep, M)
    c14.a4(rep, M)
    c18_1(rep, M)
    c18_2(rep, M)
    c18_3(rep, M)
    from . import c18_py
    c18_py.c18_4(rep)


# ------------------------------------------------------------------ helpers on lexer NFAs
def lex_nfa(G, name):
    if name not in G.R:
        raise Inconclusive("lexer rule %s vanished" % name)
    return gm.lexer_rule_nfa(G, G.R[name], inline=True)


def contains_char(n, cps):
    """is there an accepted string of NFA n that contains a code point from cps?  (edge on a start->accept path)"""
    fwd = set()
    st = [n.start]
    while st:
        s = st.pop()
        if s in fwd:
            continue
        fwd.add(s)
        st += n.eps[s] + [b for (_, b) in n.edges[s]]
    rev = {}
    for s in range(n.n):
        for t in n.eps[s]:
            rev.setdefault(t, []).append(s)
        for (_, t) in n.edges[s]:
            rev.setdefault(t, []).append(s)
    back = set()
    st = list(n.accept)
    while st:
        s = st.pop()
        if s in back:
            continue
        back.add(s)
        st += rev.get(s, [])
    for s in fwd:
        for (y, b) in n.edges[s]:
            if b in back and y[0] == "CS" and any(lo <= c <= hi for (lo, hi) in y[1] for c in cps):
                return True
    return False


def accepts(n, text):
    S = n.closure({n.start})
    for ch in text:
        S = n.closure({b for s in S for (y, b) in n.edges[s] if y[0] == "CS" and any(lo <= ord(ch) <= hi for (lo, hi) in y[1])})
        if not S:
            return False
    return bool(S & n.accept)


def literal_nfa(strings):
    n = nfa.NFA()
    s = n.new()
    n.start = s
    e = n.new()
    n.accept = {e}
    for text in strings:
        cur = s
        for i, ch in enumerate(text):
            nx = e if i == len(text) - 1 else n.new()
            n.add(cur, ("CS", ((ord(ch), ord(ch)),)), nx)
            cur = nx
    return n


def same_language(a, b):
    gm.atomise(a, b)
    return nfa.equivalent(a, b) is None


# ------------------------------------------------------------------ C18.1
def c18_1(rep, M):
    G = M.G
    R = "C18.1"
    rep.rule(R, "SPACE and COMMENT are skipped; no other token rule can match text containing a blank (except STR/TAB/ANY) or a line terminator (except NEWLINE/ANY); "
                "a run of 1-3 blanks is always one skipped SPACE", floor=len(G.tokens))
    rep.check(sorted(G.skip) == ["COMMENT", "SPACE"], R, "blackbird.g4 skip rules", "exactly SPACE and COMMENT carry '-> skip'", "grammar skips %r" % G.skip)
    for r in G.tokens:
        n = lex_nfa(G, r.name)
        if r.name not in ("SPACE", "TAB", "STR", "COMMENT", "ANY"):
            rep.check(not contains_char(n, [BLANK, HT]), R, "lexer rule " + r.name, "no string matched by %s contains a space or tab (so spacing cannot extend or split it)" % r.name)
        if r.name not in ("NEWLINE", "ANY"):
            rep.check(not contains_char(n, [CR, LF]), R, "lexer rule " + r.name, "no string matched by %s contains CR or LF (tokens never span lines)" % r.name)
    sp = lex_nfa(G, "SPACE")
    tab = lex_nfa(G, "TAB")
    for k in (1, 2, 3):
        rep.check(accepts(sp, " " * k) and not accepts(tab, " " * k), R, "SPACE/TAB on %d blank(s)" % k, "a run of %d space(s) is matched by SPACE and not by TAB" % k)
    order = [r.name for r in G.tokens]
    rep.check(order.index("TAB") < order.index("SPACE") < order.index("ANY"), R, "lexer rule order", "TAB precedes SPACE (four spaces / one tab are indentation) and SPACE precedes ANY")
    rep.check(order.index("COMMENT") < order.index("ANY") and order[-1] == "ANY", R, "lexer rule order", "COMMENT precedes ANY, and ANY is the last rule")
    anyn = lex_nfa(G, "ANY")
    b = literal_nfa([])
    # ANY = exactly one arbitrary character (lexer is total)
    one = nfa.NFA(); s = one.new(); e = one.new(); one.start = s; one.accept = {e}; one.add(s, ("CS", ((0, nfa.MAXCP),)), e)
    rep.check(same_language(anyn, one), R, "lexer rule ANY", "ANY matches exactly one arbitrary character (the lexer is total: no lexer error path)")
    # no other rule than COMMENT / ANY / STR can match text containing '#': a comment start is never inside another token
    for r in G.tokens:
        if r.name not in ("COMMENT", "ANY", "STR"):
            rep.check(not contains_char(lex_nfa(G, r.name), [ord("#")]), R, "lexer rule " + r.name, "no string matched by %s contains '#'" % r.name)


# ------------------------------------------------------------------ C18.2
def c18_2(rep, M):
    G = M.G
    R = "C18.2"
    rep.rule(R, "NEWLINE is exactly CRLF|CR|LF, TAB is exactly one tab or four spaces, COMMENT is '#' up to (not including) the line end", floor=3)
    rep.check(same_language(lex_nfa(G, "NEWLINE"), literal_nfa(["\r\n", "\r", "\n"])), R, "lexer rule NEWLINE", "L(NEWLINE) = {CRLF, CR, LF} (CRLF is one token under longest match)")
    rep.check(same_language(lex_nfa(G, "TAB"), literal_nfa(["\t", "    "])), R, "lexer rule TAB", "L(TAB) = {tab, four spaces}")
    c = nfa.NFA(); s = c.new(); e = c.new(); c.start = s; c.accept = {e}
    c.add(s, ("CS", ((ord("#"), ord("#")),)), e)
    c.add(e, ("CS", tuple(nfa.complement([(CR, CR), (LF, LF)]))), e)
    rep.check(same_language(lex_nfa(G, "COMMENT"), c), R, "lexer rule COMMENT", "L(COMMENT) = '#' followed by any characters other than CR/LF")
    sp = nfa.NFA(); s = sp.new(); e = sp.new(); sp.start = s; sp.accept = {e}
    sp.add(s, ("CS", ((HT, HT), (BLANK, BLANK))), e); sp.add(e, ("CS", ((HT, HT), (BLANK, BLANK))), e)
    rep.check(same_language(lex_nfa(G, "SPACE"), sp), R, "lexer rule SPACE", "L(SPACE) = non-empty runs of spaces and tabs")


# ------------------------------------------------------------------ C18.3 NEWLINE skeleton from the grammar
def skeleton_from_grammar(G):
    """inline the rules that mention NEWLINE/TAB; every other nonterminal is an opaque symbol.
    NEWLINE edges are tagged 'layout' (element or whole alternative of a * / + loop) or 'structural'."""
    def mentions(node):
        if isinstance(node, Ref):
            return node.name in ("NEWLINE", "TAB")
        if isinstance(node, Seq):
            return any(mentions(i) for i in node.items)
        if isinstance(node, Alt):
            return any(mentions(a) for a in node.alts)
        if isinstance(node, Rep):
            return mentions(node.item)
        return False

    inl = {r.name for r in G.prules if mentions(r.body)}
    n = nfa.NFA()
    tags = {}     # (src,dst) -> set of (rule, 'layout'|'structural')

    def build(node, s, rule, active, layout=False):
        if isinstance(node, Seq):
            for it in node.items:
                s = build(it, s, rule, active)
            return s
        if isinstance(node, Alt):
            e = n.new()
            for a in node.alts:
                b = n.new()
                n.add_eps(s, b)
                single_nl = layout and len(a.items) == 1 and isinstance(a.items[0], Ref) and a.items[0].name == "NEWLINE"
                x = build(a.items[0], b, rule, active, layout=True) if single_nl else build(a, b, rule, active)
                n.add_eps(x, e)
            return e
        if isinstance(node, Rep):
            b = n.new()
            e = n.new()
            n.add_eps(s, b)
            loop = node.kind in "*+"
            x = build(node.item, b, rule, active, layout=loop)
            n.add_eps(x, e)
            if node.kind in "?*":
                n.add_eps(s, e)
            if loop:
                n.add_eps(x, b)
            return e
        if isinstance(node, Ref):
            e = n.new()
            if node.name in inl:
                if node.name in active:
                    raise Inconclusive("NEWLINE-skeleton rule %s is recursive" % node.name)
                x = build(G.R[node.name].body, s, node.name, active | {node.name})
                n.add_eps(x, e)
            elif node.name[0].islower():
                n.add(s, "<" + node.name + ">", e)
            else:
                n.add(s, node.name, e)
                if node.name == "NEWLINE":
                    tags.setdefault((s, e), set()).add((rule, "layout" if layout else "structural"))
            return e
        raise Inconclusive("skeleton: unexpected grammar element %r" % (node,))

    s0 = n.new()
    n.start = s0
    n.accept = {build(G.R["start"].body, s0, "start", frozenset(["start"]))}
    return n, tags, sorted(inl)


def c18_3(rep, M):
    G = M.G
    R = "C18.3"
    rep.rule(R, "on the NEWLINE-skeleton DFA of the grammar: after every layout NEWLINE (blank-line positions between metadata lines, includes, declarations and statements, "
                "inside and outside loops, and before the metadata) one more NEWLINE leads to a language-equivalent state, and a final NEWLINE before EOF is optional", floor=8)
    n, tags, inl = skeleton_from_grammar(G)
    start = n.closure({n.start})
    dstates = {start: 0}
    trans = {}
    edge_tags = {}
    q = deque([start])
    while q:
        S = q.popleft()
        for y in n.syms(S):
            T = n.step(S, y)
            if T not in dstates:
                dstates[T] = len(dstates)
                q.append(T)
            trans[(S, y)] = T
            if y == "NEWLINE":
                tg = set()
                for s in S:
                    for (yy, b) in n.edges[s]:
                        if yy == "NEWLINE":
                            tg |= tags.get((s, b), set())
                edge_tags[(S, y)] = tg
    alph = sorted({y for (_, y) in trans})
    part = {S: (1 if S & n.accept else 0) for S in dstates}
    while True:
        sig = {S: (part[S], tuple(part.get(trans.get((S, y)), -1) for y in alph)) for S in dstates}
        ids = {}
        newp = {S: ids.setdefault(sig[S], len(ids)) for S in dstates}
        done = len(set(newp.values())) == len(set(part.values()))
        part = newp
        if done:
            break

    def inc(S):
        return sorted({y for (S0, y), T1 in trans.items() if T1 == S})

    rep.extra["skeleton"] = {"inlined_rules": inl, "nfa_states": n.n, "dfa_states": len(dstates), "newline_edges": len(edge_tags)}
    # leading blank lines
    T = trans.get((start, "NEWLINE"))
    rep.check(T is not None and part[T] == part[start], R, "before the metadata", "a NEWLINE before the first metadata line leads to a state equivalent to the initial state")
    layout_edges = structural = 0
    excluded = []
    for (S, y), T in sorted(trans.items(), key=lambda kv: (dstates[kv[0][0]], kv[0][1])):
        if y != "NEWLINE":
            continue
        tg = edge_tags[(S, y)]
        where = "NEWLINE read after %s (rules %s)" % ("/".join(inc(S)) or "start", ",".join(sorted({r for r, _ in tg})))
        if any(k == "layout" for _, k in tg):
            layout_edges += 1
            T2 = trans.get((T, "NEWLINE"))
            rep.check(T2 is not None and part[T2] == part[T], R, where, "one more NEWLINE at this position is absorbed (blank and comment lines do not change the parse)")
            rep.check(((S, "EOF") in trans) == ((T, "EOF") in trans), R, where,
                      "EOF is accepted before this NEWLINE iff after it (final newline optional)")
        else:
            structural += 1
            excluded.append(where)
    rep.extra["skeleton"].update({"layout_newline_edges": layout_edges, "structural_newline_edges": structural, "positions_where_closure_is_not_required": excluded})
    # every statement-final / declaration-final / metadata-final symbol may be followed directly by EOF where a program may end
    for (S, y), T in trans.items():
        if y in ("<expressionvar>", "<include>", "<version>", "<target>", "<declaretype>"):
            rep.check((T, "EOF") in trans and (T, "NEWLINE") in trans, R, "after " + y, "after %s both EOF and NEWLINE are accepted" % y)
        if y in ("<arrayrow>", "RBRAC", "RSQBRAC"):
            # statement-final positions: those where NEWLINE edges are layout
            tg = edge_tags.get((T, "NEWLINE"), set())
            if tg and any(r == "statement" for r, _ in tg):
                rep.check((T, "EOF") in trans, R, "after a statement's mode list (%s)" % y, "a statement may be the last line without a final NEWLINE")
