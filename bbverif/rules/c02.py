"""C02 - loading a script yields exactly the program the script denotes (P, EXH, GRD; DESIGN 5/C02)."""
import ast
from ..py.index import pos as _pos

from ..report import Inconclusive
from ..gram import model as gm
from ..py import exh
from ..py.ctxtypes import ContextClasses, Typer, Acc
from ..py.guards import path_to, resolved_text, stmt_of, always_raises
from ..py.index import u, walk_shallow
from . import common
from .c11 import c11_3

LISTENER = "listener.BlackbirdListener"
SEMANTIC = ("listener", "auxiliary")
ARGS = "auxiliary._get_arguments"
STMT = "listener.BlackbirdListener.exitStatement"


def run(rep, tier):
    rep.trust(*common.PY_TRUST)
    rep.trust("ParseTreeWalker visits children in source order; getChildren() yields them in that order; dict preserves insertion order")
    ix = common.index(rep)
    M = gm.Model(rep)
    cc = ContextClasses(M.src["py_parser"])
    typers = type_package(ix, cc)
    c02_1(rep, ix, M, cc, typers)
    common.guarded(rep, "C02.2", c02_2, rep, ix)
    common.guarded(rep, "C02.3", c02_3, rep, ix, M)
    common.guarded(rep, "C02.4", c02_4, rep, ix)
    rep.rule("C11.3", "modes are stored only if integer (shared with C11)", floor=10)
    common.guarded(rep, "C11.3", c11_3, rep, ix)
    common.guarded(rep, "C02.5", c02_5, rep, ix)
    from . import c06, c05
    # a for loop is part of what the script denotes: its operations are those of the unrolled loop (all of C06's clauses)
    common.guarded(rep, "C06.1", c06.c06_1, rep, ix, M.G)
    common.guarded(rep, "C06.2", c06.c06_2, rep, ix)
    common.guarded(rep, "C06.3", c06.eager_header, rep, ix)
    common.guarded(rep, "C06.3", c06.c06_3, rep, ix, M.G)
    from .c11 import c11_5
    common.guarded(rep, "C06.4", c11_5, rep, ix, R="C06.4")
    common.guarded(rep, "C06.5", c06.c06_5, rep, ix, M.G)
    common.guarded(rep, "C06.6", c06.c06_6, rep, ix)
    c05.shared_tables(rep, ix, M.G)          # values come from tables that hold only this load's data
    # "arguments equal to the values of the written expressions": the evaluator's operator table (shared with C03)
    from . import c03
    rep.rule("C03.3", "operator table of the evaluator (shared with C03)", floor=8)
    br = common.guarded(rep, "C03.2", c03.c03_2, rep, ix, M)
    if br:
        common.guarded(rep, "C03.3", c03.c03_3, rep, ix, M, cc, br)
        common.guarded(rep, "C03.9", c03.c03_9, rep, ix, M, cc, br)
    common.guarded(rep, "C02.7", c02_7, rep, ix, M)
    # "the script": the text the caller passed is the text that is lexed and parsed (pipeline integrity, shared with C10 / C18)
    from . import c10
    common.guarded(rep, "C10.2", c10.c10_2, rep, ix)
    common.guarded(rep, "C02.6", c02_6, rep, ix)      # loop bodies execute only in the replay: one entry per executed statement


# ---------------------------------------------------------------------------------------- typing with call-site propagation
def type_package(ix, cc):
    funcs = {q: f for q, f in ix.funcs.items() if f.mod in SEMANTIC}
    ptypes = {q: {} for q in funcs}
    typers = {}
    for _ in range(3):
        for q, f in funcs.items():
            t = Typer(cc, f.node, param_types=ptypes[q])
            calls = []
            orig = t.ty

            def ty(e, env, orig=orig, calls=calls):
                r = orig(e, env)
                if isinstance(e, ast.Call) and isinstance(e.func, ast.Name):
                    calls.append((e, [orig(a, env) for a in e.args]))
                return r
            t.ty = ty
            t.run()
            typers[q] = t
            for call, argtypes in calls:
                tq = ix.resolve_name(f.mod, call.func.id)
                if tq in funcs:
                    for name, at in zip(funcs[tq].params, argtypes):
                        ctxs = {x for x in at if x.startswith("ctx:")}
                        if ctxs:
                            ptypes[tq][name] = set(ptypes[tq].get(name, set())) | ctxs
    return typers


# ---------------------------------------------------------------------------------------- C02.1 handlers live, accessors exist, alternatives handled
KNOWN_DEAD_REASON = "no parse-tree node of this rule can reach the branch (every child-presence profile is consumed by an earlier test)"


def c02_1(rep, ix, M, cc, typers):
    R = "C02.1"
    G = M.G
    rep.rule(R, "every listener handler overrides a generated one; every accessor used on a typed parse-tree context exists on that context class (outside branches no parse tree can reach); "
                "every accessor result that is dereferenced is present in every child-presence profile that reaches the dereference, or is guarded", floor=60)
    rep.rule("C02.EXH", "dispatch chains over a context's children handle every child-presence profile the grammar allows (a profile that falsifies every test and reaches no else/raise is unhandled)", floor=8)
    gen = gm.class_tables(M.src["py_listener"], "blackbirdListener")
    have = {n.name for n in gen["cls"].body if isinstance(n, ast.FunctionDef)}
    for name, f in sorted(ix.methods(LISTENER).items()):
        if name.startswith(("enter", "exit")):
            rep.check(name in have, R, ix.site(f), "handler %s overrides a method of the generated listener (it is actually called by the walker)" % name, key="handler|" + name)
            ann = f.node.args.args[1].annotation if len(f.node.args.args) > 1 else None
            want = name[5:] if name.startswith("enter") else name[4:]
            if ann is not None:
                rep.check(u(ann).endswith(want + "Context"), R, ix.site(f), "handler %s is annotated with its own context class" % name, "annotated %s" % u(ann), key="ann|" + name)
    for q, t in sorted(typers.items()):
        f = ix.funcs[q]
        fn = f.node
        acc_of = {id(n): (recv, attr, is_call) for n, recv, attr, is_call in t.accesses}
        dead_nodes = set()
        # --- dispatch chains
        for block in exh.all_blocks(fn):
            for arms, els, kind, first in exh.chains(block):
                recvs = {exh.accessor_test(tn)[0] for tn, _ in arms}
                if len(recvs) != 1:
                    continue
                call0 = arms[0][0]
                calln = [n for n in ast.walk(call0) if isinstance(n, ast.Call) and id(n) in acc_of]
                if not calln:
                    continue
                rt = {x for x in acc_of[id(calln[0])][0] if x.startswith("ctx:")}
                if len(rt) != 1:
                    continue
                cname = list(rt)[0][4:]
                body, where = exh.body_of(G, cname)
                if body is None:
                    continue
                tested = [exh.accessor_test(tn)[1] for tn, _ in arms]
                known = [a for a in tested if a in exh.names_in(body)]
                if not known:
                    continue
                if len(arms) == 1 and kind == "elif":
                    continue      # a lone `if ctx.x():` tests an optional child, not an alternative
                node = exh.innermost_with(body, set(known))
                P = exh.profiles(node)
                remaining = set(P)
                for (tn, abody), a in zip(arms, tested):
                    _, _, pol = exh.accessor_test(tn)
                    hit = {p for p in remaining if (a in p) == pol}
                    if not hit:
                        for s in abody:
                            for n in ast.walk(s):
                                dead_nodes.add(id(n))
                        for n in ast.walk(tn):
                            dead_nodes.add(id(n))
                        rep.info("C02.EXH", ix.site(f, tn), "branch `%s` is dead: %s" % (" ".join(u(tn).split())[:50], KNOWN_DEAD_REASON))
                    remaining -= hit
                handled_rest = (els is not None and len(els) > 0)
                for p in sorted(remaining, key=lambda s: sorted(s)):
                    desc = "{%s}" % ", ".join(sorted(p)) if p else "{} (optional part absent)"
                    text = "%s: chain over %s handles the child-presence profile %s of %s" % (q.split(".")[-1], "/".join(tested), desc, where)
                    if handled_rest:
                        rep.ok("C02.EXH", ix.site(f, first), text, "handled by the else / trailing statements")
                    elif not p and isinstance(node, exh.Rep) and node.kind in "?*":
                        rep.ok("C02.EXH", ix.site(f, first), text, "optional child absent: nothing to do")
                    else:
                        rep.bad("C02.EXH", ix.site(f, first), text, "this alternative falsifies every test and falls through unhandled", key="%s|%s|%s" % (q, where, desc))
                if not remaining:
                    rep.ok("C02.EXH", ix.site(f, first), "%s: chain over %s covers all %d child-presence profiles of %s" % (q.split(".")[-1], "/".join(tested), len(P), where))
        # --- accessor existence and dereference presence
        for node, recv, attr, is_call in t.accesses:
            if id(node) in dead_nodes:
                continue
            for ty in sorted(recv):
                if ty.startswith("ctx:"):
                    lk = cc.lookup(ty[4:], attr)
                    rep.check(lk is not None, R, ix.site(f, node), "`%s`: %s exists on %s" % (" ".join(u(node).split())[:60], attr, ty[4:]), "AttributeError on this path", key="%s|%s.%s" % (q, ty[4:], attr))
            # dereference of a possibly absent single accessor result
            base = node.func.value if is_call else node.value
            if isinstance(base, ast.Call) and isinstance(base.func, ast.Attribute) and id(base) in acc_of:
                brecv, battr, _ = acc_of[id(base)]
                cts = [x[4:] for x in brecv if x.startswith("ctx:")]
                if len(cts) == 1 and not base.args:
                    lk = cc.lookup(cts[0], battr)
                    if isinstance(lk, Acc) and lk.multi == "single":
                        presence(rep, R, ix, f, G, node, base, cts[0], battr)
            elif isinstance(base, ast.Name) and "none" in recv:
                st = stmt_of(fn, node)
                try:
                    txt = resolved_text(fn, base, st)
                except Exception:
                    txt = None
                if txt and txt.endswith("()") and not guarded_by(fn, node, txt) and not name_tested(fn, node, base.id):
                    rep.bad(R, ix.site(f, node), "`%s`: %s is not None here" % (" ".join(u(node).split())[:60], base.id), "bound to `%s`, which may be absent" % txt, key="%s|none|%s" % (q, base.id))


def guarded_by(fn, node, acc_text):
    """an enclosing `if` (or a preceding early exit) establishes that the accessor call `acc_text` is truthy"""
    st = stmt_of(fn, node)
    p = path_to(fn.body, st)
    for (stmts, i, field) in p or []:
        s = stmts[i]
        if isinstance(s, ast.If) and field in ("body", "orelse"):
            at = exh.accessor_test(s.test)
            if at:
                try:
                    rt = resolved_text(fn, ast.parse(at[0], mode="eval").body, s)
                except Exception:
                    rt = at[0]
                if "%s.%s()" % (rt, at[1]) == acc_text or "%s.%s()" % (at[0], at[1]) == acc_text:
                    if (field == "body") == at[2]:
                        return True
        for prev in stmts[:i]:
            if isinstance(prev, ast.If) and exh.terminates(prev.body) and not prev.orelse:
                at = exh.accessor_test(prev.test)
                if at and "%s.%s()" % (at[0], at[1]) == acc_text and not at[2]:
                    return True
    # same test inside one boolean expression / if-test of the statement itself
    if isinstance(st, ast.If):
        at = exh.accessor_test(st.test)
        if at and "%s.%s()" % (at[0], at[1]) == acc_text and at[2]:
            return True
    return False


def name_tested(fn, node, name):
    st = stmt_of(fn, node)
    p = path_to(fn.body, st)
    for (stmts, i, field) in p or []:
        s = stmts[i]
        if isinstance(s, ast.If) and field == "body" and (u(s.test) == name or u(s.test) == "%s is not None" % name):
            return True
    return False


def presence(rep, R, ix, f, G, node, base, cname, attr):
    body, where = exh.body_of(G, cname)
    if body is None or attr not in exh.names_in(body):
        return
    P = exh.profiles(body)
    missing = [p for p in P if attr not in p]
    txt = "%s.%s()" % (u(base.func.value), attr)
    if not missing:
        rep.ok(R, ix.site(f, node), "`%s` is dereferenced: %s is present in every complete %s node" % (txt, attr, where))
    elif guarded_by(f.node, node, txt) or in_chain_arm(f.node, node, u(base.func.value), attr, G, cname):
        rep.ok(R, ix.site(f, node), "`%s` is dereferenced under a test that establishes its presence" % txt)
    else:
        alt = sorted(sorted(p) for p in missing)[0]
        rep.bad(R, ix.site(f, node), "`%s` is dereferenced only where the grammar guarantees the child" % txt,
                "%s allows nodes without %s (e.g. children %s): AttributeError on None" % (where, attr, alt), key="%s|deref|%s.%s" % (f.qual, cname, attr))


def in_chain_arm(fn, node, recv, attr, G, cname):
    """the dereference sits in an arm of a chain whose earlier tests exclude every profile lacking the child"""
    return False


# ---------------------------------------------------------------------------------------- C02.2 metadata provenance
def c02_2(rep, ix):
    R = "C02.2"
    rep.rule(R, "metadata: name, version, target device and program type are stored as the exact token text of their context; options are the keyword part of the evaluated arguments", floor=6)
    want = {
        "exitDeclarename": ("self._program._name", "ctx.programname().getText()"),
        "exitVersion": ("self._program._version", "ctx.versionnumber().getText()"),
        "exitTarget": ("self._program._target['name']", "ctx.device().getText()"),
        "exitDeclaretype": ("self._program._type['name']", "ctx.programtype().getText()"),
    }
    for h, (tgt, src) in want.items():
        f = ix.func("%s.%s" % (LISTENER, h))
        st = [n for n in walk_shallow(f.node) if isinstance(n, ast.Assign) and resolved_text(f.node, n.targets[0], n) == tgt]
        ok = len(st) == 1 and resolved_text(f.node, st[0].value, st[0]) == src and st[0] in f.node.body
        rep.check(ok, R, ix.site(f, st[0]) if st else ix.site(f), "%s stores %s = %s (unmodified token text, unconditionally)" % (h, tgt, src),
                  "stores `%s`" % (u(st[0].value) if st else None), key=h)
    for h, field in (("exitTarget", "_target"), ("exitDeclaretype", "_type")):
        f = ix.func("%s.%s" % (LISTENER, h))
        fn = f.node
        st = [n for n in walk_shallow(fn) if isinstance(n, ast.Assign) and u(n.targets[0]) == "self._program.%s['options']" % field]
        ok = len(st) == 1 and isinstance(st[0].value, ast.Name) and st[0] in fn.body
        kwname = u(st[0].value) if ok else None
        # kwargs is {} unless arguments are present, in which case it is the second component of _get_arguments(ctx.arguments())
        init = [n for n in fn.body if isinstance(n, ast.Assign) and u(n.targets[0]) == kwname and isinstance(n.value, ast.Dict) and not n.value.keys]
        unpack = [n for n in walk_shallow(fn) if isinstance(n, ast.Assign) and isinstance(n.targets[0], ast.Tuple) and len(n.targets[0].elts) == 2 and u(n.targets[0].elts[1]) == kwname
                  and u(n.value) == "_get_arguments(ctx.arguments())"]
        guarded = unpack and any(isinstance(s, ast.If) and u(s.test) in ("ctx.arguments()", "ctx.arguments() is not None") and unpack[0] in s.body for s in fn.body)
        rep.check(ok and len(init) == 1 and len(unpack) == 1 and guarded, R, ix.site(f), "%s stores the keyword part of _get_arguments(ctx.arguments()) (or {} without arguments) as options" % h, key=h + "|options")


# ---------------------------------------------------------------------------------------- C02.3 argument extraction
def c02_3(rep, ix, M):
    R = "C02.3"
    rep.rule(R, "argument extraction walks the children of `arguments` in source order; positional values are appended, keyword values inserted, in that order, and each stored value is the "
                "evaluator's result for that child, unmodified", floor=6)
    f = ix.func(ARGS)
    fn = f.node
    p = f.params[0]
    loops = [n for n in fn.body if isinstance(n, ast.For) and u(n.iter) == "%s.getChildren()" % p]
    if len(loops) != 1:
        raise Inconclusive("_get_arguments: loop over arguments.getChildren() not recognised")
    lp = loops[0]
    rets = [n for n in walk_shallow(fn) if isinstance(n, ast.Return)]
    rep.check(len(rets) == 1 and isinstance(rets[0].value, ast.Tuple) and len(rets[0].value.elts) == 2, R, ix.site(f), "_get_arguments returns (positional list, keyword dict)", key="return")
    a_name, k_name = (u(x) for x in rets[0].value.elts) if rets and isinstance(rets[0].value, ast.Tuple) else (None, None)
    inits = {u(n.targets[0]): n.value for n in fn.body if isinstance(n, ast.Assign)}
    rep.check(isinstance(inits.get(a_name), ast.List) and not inits[a_name].elts and isinstance(inits.get(k_name), ast.Dict) and not inits[k_name].keys, R, ix.site(f),
              "both collections start empty", key="init")
    stores = []
    for n in ast.walk(lp):
        if isinstance(n, ast.Call) and isinstance(n.func, ast.Attribute) and n.func.attr in ("append", "insert", "extend") and u(n.func.value) in (a_name,):
            stores.append((n, "positional", n.args[-1] if n.args else None, n.func.attr))
        if isinstance(n, ast.Assign) and isinstance(n.targets[0], ast.Subscript) and u(n.targets[0].value) == k_name:
            stores.append((n, "keyword", n.value, "store"))
        if isinstance(n, ast.Call) and isinstance(n.func, ast.Attribute) and n.func.attr in ("append", "insert", "extend") and u(n.func.value) not in (a_name, k_name):
            stores.append((n, "list element", n.args[-1] if n.args else None, n.func.attr))
    okvals = ("_expression(", "_literal(", "_VAR[")
    for n, slot, val, how in stores:
        txt = " ".join(u(n).split())[:80]
        if slot == "keyword" and isinstance(val, ast.Name):
            rep.ok(R, ix.site(f, n), "`%s`: keyword slot receives the collected value list" % txt)
            continue
        if isinstance(val, ast.Name):
            # the evaluator's result bound to a local just before it is stored
            st_ = stmt_of(fn, n)
            rv = resolved_text(fn, val, st_) if st_ is not None else u(val)
            try:
                val = ast.parse(rv, mode="eval").body
            except SyntaxError:
                pass
        # the stored expression IS the evaluator call (or the table lookup) - not something computed from it
        direct = val is not None and how in ("append", "store") and (
            (isinstance(val, ast.Call) and isinstance(val.func, ast.Name) and val.func.id in ("_expression", "_literal"))
            or (isinstance(val, ast.Subscript) and isinstance(val.value, ast.Name) and val.value.id == "_VAR"))
        rep.check(direct, R, ix.site(f, n), "`%s`: the %s value is the evaluator's result for that child, stored unmodified and in order (append / dict insertion)" % (txt, slot),
                  "stores `%s` via %s" % (u(val) if val is not None else None, how), key="store|" + txt)
    # keyword name is the NAME token of the kwarg
    kn = [n for n in ast.walk(lp) if isinstance(n, ast.Assign) and isinstance(n.targets[0], ast.Subscript) and u(n.targets[0].value) == k_name]
    for n in kn:
        key = resolved_text(fn, n.targets[0].slice, n)
        rep.check(key.endswith(".NAME().getText()"), R, ix.site(f, n), "keyword arguments are stored under the text of their NAME token", "key `%s`" % key, key="kwname|" + key)
    # no sorting / reversing anywhere
    bad = [n for n in ast.walk(fn) if isinstance(n, ast.Call) and u(n.func) in ("sorted", "reversed") or (isinstance(n, ast.Call) and isinstance(n.func, ast.Attribute) and n.func.attr in ("sort", "reverse"))]
    rep.check(not bad, R, ix.site(f), "argument order is never changed (no sort / reverse)", key="order")


# ---------------------------------------------------------------------------------------- C02.4 one operation per executed statement
def c02_4(rep, ix):
    R = "C02.4"
    rep.rule(R, "exitStatement adds exactly one entry (or one include expansion) at the end of the operation list on every normal exit that is not the deferral return; the entry's fields come from the statement", floor=6)
    f = ix.func(STMT)
    fn = f.node

    def effects(stmts):
        """set of possible (count of list-extending effects) on normal completion; None marks paths that return early"""
        outs = {0}
        for s in stmts:
            new = set()
            for c in outs:
                if isinstance(s, ast.Return):
                    new.add(("ret", c))
                    continue
                if isinstance(s, ast.Raise):
                    continue
                if isinstance(s, ast.If):
                    for b in (s.body, s.orelse):
                        for r in effects(b):
                            new.add(("ret", c + r[1]) if isinstance(r, tuple) else c + r)
                    continue
                if isinstance(s, (ast.For, ast.While)):
                    inner = sum(1 for x in ast.walk(s) if is_extend(x))
                    if inner:
                        new.add("LOOP")
                        continue
                n = sum(1 for x in ast.walk(s) if is_extend(x))
                new.add(c + n)
            outs = {x for x in new}
            if all(isinstance(x, tuple) for x in outs):
                break
            outs = {x for x in outs if not isinstance(x, tuple)} | {x for x in outs if isinstance(x, tuple)}
            # keep early-return results aside
            early = {x for x in outs if isinstance(x, tuple)}
            cur = {x for x in outs if not isinstance(x, tuple)}
            outs = cur
            effects.early |= early
        return outs

    def is_extend(x):
        return (isinstance(x, ast.Call) and isinstance(x.func, ast.Attribute) and x.func.attr in ("append", "extend", "insert") and u(x.func.value).endswith("._operations")) or \
               (isinstance(x, ast.AugAssign) and u(x.target).endswith("._operations"))

    effects.early = set()
    normal = effects(fn.body)
    rep.check(normal == {1}, R, ix.site(f), "every normal completion of exitStatement extends the operation list exactly once", "possible counts %s" % sorted(map(str, normal)), key="exactly once")
    early = {c for (_, c) in effects.early}
    rep.check(early <= {0}, R, ix.site(f), "an early return (deferral) adds nothing", "early returns after %s additions" % sorted(early), key="early")
    ext = [x for x in ast.walk(fn) if is_extend(x)]
    for x in ext:
        how = x.func.attr if isinstance(x, ast.Call) else "+="
        rep.check(how in ("append", "extend", "+="), R, ix.site(f, x), "`%s` adds at the end of the list" % " ".join(u(x).split())[:60], "uses %s" % how, key="end|" + how)
    # the operation dictionary
    dicts = [n for n in walk_shallow(fn) if isinstance(n, ast.Assign) and isinstance(n.value, ast.Dict) and any(isinstance(k, ast.Constant) and k.value == "op" for k in n.value.keys)]
    if not dicts:
        raise Inconclusive("exitStatement: operation dictionary literal not found")
    for d in dicts:
        kv = {k.value: v for k, v in zip(d.value.keys, d.value.values) if isinstance(k, ast.Constant)}
        opsrc = {resolved_text(fn, a.value, a) for a in walk_shallow(fn) if isinstance(a, ast.Assign) and u(a.targets[0]) == u(kv["op"])} if isinstance(kv.get("op"), ast.Name) else set()
        ok = opsrc == {"ctx.operation().getText()", "ctx.measure().getText()"} and "modes" in kv
        rep.check(ok, R, ix.site(f, d), "operation entry: 'op' is the text of the operation / measure child, 'modes' the checked mode list", "op sources %s" % sorted(opsrc), key="dict|%d" % len(kv))
        if "args" in kv:
            un = [a for a in walk_shallow(fn) if isinstance(a, ast.Assign) and isinstance(a.targets[0], ast.Tuple) and u(a.value) == "_get_arguments(ctx.arguments())"]
            ok2 = len(un) == 1 and [u(x) for x in un[0].targets[0].elts] == [u(kv["args"]), u(kv["kwargs"])]
            rep.check(ok2, R, ix.site(f, d), "'args' and 'kwargs' are the two results of _get_arguments(ctx.arguments())", key="dict|args")
    # modes list: children of arrayrow in order without separators
    from .c11 import mode_loops
    from ..py.guards import reaching_def

    def children_source(e, at):
        """True if e denotes the expression children of ctx.arrayrow() in source order (separators removed)"""
        if isinstance(e, ast.Call) and u(e.func) in ("enumerate", "list", "iter", "tuple") and len(e.args) == 1:
            return children_source(e.args[0], at)
        if isinstance(e, ast.Call) and u(e.func) == "range" and len(e.args) == 1 and isinstance(e.args[0], ast.Call) and u(e.args[0].func) == "len" and len(e.args[0].args) == 1:
            return children_source(e.args[0].args[0], at)          # positions 0 .. len-1 of the list, in order
        if isinstance(e, ast.Name):
            d = reaching_def(fn, e.id, at)
            return d is not None and children_source(d, at)
        t = " ".join(u(e).split())
        if t == "ctx.arrayrow().expression()":
            return True
        if isinstance(e, (ast.ListComp, ast.GeneratorExp)) and len(e.generators) == 1 and isinstance(e.generators[0].target, ast.Name) and isinstance(e.elt, ast.Name):
            g = e.generators[0]
            v = g.target.id
            return e.elt.id == v and " ".join(u(g.iter).split()) == "ctx.arrayrow().getChildren()" and [" ".join(u(c).split()) for c in g.ifs] in (
                ["%s.getText() != ','" % v], ["isinstance(%s, blackbirdParser.ExpressionContext)" % v])
        return None if t != "ctx.arrayrow().getChildren()" else "raw"

    loops = mode_loops(fn)
    okm, got, where = False, None, ix.site(f)
    if len(loops) == 1:
        l = loops[0]
        where = ix.site(f, l)
        got = " ".join(u(l.iter).split())
        cs = children_source(l.iter, l)
        if cs == "raw":
            # all children are iterated: the separators must be skipped before the element is evaluated
            tv = [x.id for x in ast.walk(l.target) if isinstance(x, ast.Name)]
            first = l.body[0] if l.body else None
            okm = isinstance(first, ast.If) and len(first.body) == 1 and isinstance(first.body[0], ast.Continue) and not first.orelse and " ".join(u(first.test).split()) in (
                [t_ for v in tv for t_ in ("%s.getText() == ','" % v, "not isinstance(%s, blackbirdParser.ExpressionContext)" % v)])
        else:
            okm = bool(cs)
    else:
        ms = [a for a in walk_shallow(fn) if isinstance(a, ast.Assign) and u(a.targets[0]) == "modes"]
        if len(ms) == 1:
            where, got = ix.site(f, ms[0]), " ".join(u(ms[0].value).split())
            if isinstance(ms[0].value, ast.ListComp) and "_expression(" in u(ms[0].value.elt) and len(ms[0].value.generators) == 1:
                okm = bool(children_source(ms[0].value.generators[0].iter, ms[0])) and children_source(ms[0].value.generators[0].iter, ms[0]) != "raw"
            else:
                okm = bool(children_source(ms[0].value, ms[0])) and children_source(ms[0].value, ms[0]) != "raw"
    rep.check(okm, R, where, "the mode list is the expression children of arrayrow in source order", "got `%s`" % got, key="modes list")


# ---------------------------------------------------------------------------------------- C02.7 non-numeric literals
def c02_7(rep, ix, M, R="C02.7"):
    rep.rule(R, "non-numeric literals are read by token kind first: a STR token yields its text without the quotes whatever that text is, a BOOL token yields True / False", floor=3)
    from ..py.terms import TermEval, show
    from .c03 import token_paths
    f = ix.func("auxiliary._literal")
    p = f.params[0]
    te = TermEval(ctxvar="__none__")
    paths = te.paths(f.node.body, {})
    # every value-returning path is under a token-kind test as its FIRST condition
    for conds, t, env in paths:
        if t in ("RAISE", "FALL"):
            continue
        kinds = ("%s.STR()" % p, "%s.BOOL()" % p, "%s.STR() is not None" % p, "%s.BOOL() is not None" % p)
        lead = []
        for c_, v_ in conds:
            if c_.startswith("not ") and not c_.startswith("not (") :
                c_, v_ = c_[4:], not v_          # the failing edge of a guard clause `if not X: raise` is the true edge of X
            lead.append((c_, v_))
            if v_:
                break
        first = lead[-1][0] if lead else ""
        ok = bool(lead) and lead[-1][1] and all(c_ in kinds for c_, v_ in lead)
        rep.check(ok, R, ix.site(f), "the value %s is returned only after the token kind has been tested first" % show(t),
                  "first condition on this path is `%s`: a string whose text looks like another literal is read as that literal" % first, key="literal|first|" + show(t)[:40])
    tp = token_paths(paths, p)
    text = ("method", ("name", p), "getText", (), ())
    strs = [t for k, lst in tp.items() if k[:1] == ("STR",) for conds, t in lst if t not in ("RAISE", "FALL")]
    good_str = [("cast", "str", ("method", text, "replace", (("const", '"'), ("const", "")), ())), ("method", text, "replace", (("const", '"'), ("const", "")), ()),
                ("index", text, ("opaque", "1:-1"))]
    rep.check(len(strs) == 1 and (strs[0] in good_str or show(strs[0]) in ("index(method(%s, getText, (), ()), 1:-1)" % p,)), R, ix.site(f),
              "a STR token yields its text with the quotes removed", "returns %s" % [show(t) for t in strs], key="literal|STR")
    # BOOL: the token language is finite (read from the grammar); interpret the reader on each word
    from ..py.guards import run_block, AEval, ModelError
    words = sorted(bool_words(M))
    for w in words:
        def atom(node, w=w):
            t = " ".join(u(node).split())
            if t == "%s.getText()" % p:
                return w
            if t == "%s.BOOL()" % p:
                return "BOOL-token"
            if t == "%s.STR()" % p:
                return None
            return AEval.NO
        try:
            r = run_block(f.node.body, atom)
        except ModelError as e:
            r = ("raise", str(e))
        rep.check(r[0] == "return" and isinstance(r[1], bool) and r[1] == (w == "True"), R, ix.site(f), "the BOOL token `%s` yields %s" % (w, w == "True"),
                  "the reader gives %s" % (r,), key="literal|BOOL|" + w)


def bool_words(M):
    """the (finite) language of the BOOL lexer rule, from the grammar: alternatives that are single literals"""
    from ..gram.g4 import Lit, Alt, Seq
    r = M.G.R.get("BOOL")
    if r is None:
        raise Inconclusive("the grammar has no BOOL token")

    def words(node):
        if isinstance(node, Lit):
            return {node.text}
        if isinstance(node, Alt):
            return set().union(*[words(a) for a in node.alts])
        if isinstance(node, Seq):
            out = {""}
            for it in node.items:
                out = {a + b for a in out for b in words(it)}
            return out
        raise Inconclusive("BOOL is no longer a finite set of literals")
    return words(r.body)


# ---------------------------------------------------------------------------------------- C02.6 extracted values are not rewritten
def c02_6(rep, ix):
    R = "C02.6"
    rep.rule(R, "after extraction the positional / keyword values and the checked modes are not rewritten: the only replacement is the wrapping of a symbolic value into RegRefTransform(<that value>)", floor=2)
    f = ix.func(STMT)
    fn = f.node
    un = [a for a in walk_shallow(fn) if isinstance(a, ast.Assign) and isinstance(a.targets[0], ast.Tuple) and u(a.value) == "_get_arguments(ctx.arguments())"]
    if len(un) != 1:
        raise Inconclusive("exitStatement: unpacking of _get_arguments not recognised")
    names = [u(x) for x in un[0].targets[0].elts]
    n = 0
    for a in walk_shallow(fn):
        if isinstance(a, (ast.Assign, ast.AugAssign)) and a is not un[0]:
            if isinstance(a, ast.Assign) and _pos(a) < _pos(un[0]) and a in fn.body and all(isinstance(t, ast.Name) for t in a.targets) and isinstance(a.value, ast.Constant):
                continue        # a placeholder bound before the extraction (`op_kwargs = None`): the extraction replaces it
            tgts = a.targets if isinstance(a, ast.Assign) else [a.target]
            for t in tgts:
                base = t.value if isinstance(t, ast.Subscript) else t
                if isinstance(base, ast.Name) and base.id in names:
                    n += 1
                    v = a.value
                    ok = isinstance(t, ast.Subscript) and isinstance(v, ast.Call) and u(v.func) == "RegRefTransform" and len(v.args) == 1
                    rep.check(ok, R, ix.site(f, a), "`%s` only wraps a symbolic value into a register transform" % " ".join(u(a).split())[:70],
                              "the extracted argument values are rewritten (the stored value is no longer the evaluator's result)", key=" ".join(u(a).split())[:70])
        if isinstance(a, ast.Call) and isinstance(a.func, ast.Attribute) and isinstance(a.func.value, ast.Name) and a.func.value.id in names and a.func.attr in (
                "append", "extend", "insert", "pop", "remove", "clear", "update", "sort", "reverse", "setdefault", "popitem"):
            n += 1
            rep.bad(R, ix.site(f, a), "`%s` does not change the extracted arguments" % " ".join(u(a).split())[:70], key=" ".join(u(a).split())[:70])
    rep.ok(R, ix.site(f), "%d writes to the extracted argument containers analysed" % n)


# ---------------------------------------------------------------------------------------- C02.5 reported modes / length
def c02_5(rep, ix):
    R = "C02.5"
    rep.rule(R, "the program reports its mode set and length from the accumulated modes and the operation list", floor=3)
    for q, want in (("program.BlackbirdProgram.modes", "self._modes"), ("program.BlackbirdProgram.__len__", "len(self._operations)"), ("program.BlackbirdProgram.operations", "self._operations"),
                    ("program.BlackbirdProgram.name", "self._name"), ("program.BlackbirdProgram.version", "self._version"), ("program.BlackbirdProgram.target", "self._target"),
                    ("program.BlackbirdProgram.programtype", "self._type")):
        f = ix.func(q)
        body = [s for s in f.node.body if not (isinstance(s, ast.Expr) and isinstance(s.value, ast.Constant))]
        ok = len(body) == 1 and isinstance(body[0], ast.Return) and u(body[0].value) == want
        rep.check(ok, R, ix.site(f), "%s returns %s" % (q.split(".")[-1], want), key=q)
