"""C12 - each load is independent of every earlier load in the process (TS + EFF, DESIGN 5/C12)."""
import ast

from ..report import Inconclusive
from ..gram import model as gm
from ..py.eff import FRESH, nonfresh
from ..py.index import u, Index
from ..py.ts import TS
from . import common

MUTABLE_CTORS = ("dict", "list", "set", "OrderedDict", "defaultdict", "collections.OrderedDict", "collections.defaultdict", "deque", "collections.deque", "bytearray")
ENTRY = ["listener.parse", "__init__.load", "__init__.loads"]


# constructors / factories whose result cannot be changed (or whose state is not program data): everything else that is called at
# module or class level makes an object that must be assumed mutable (ChainMap, Counter, a user class, np.zeros, ...)
from ..py.eff import IMMUTABLE_CALLS


PKG_PREFIX = "blackbird_python/blackbird/"


def is_mutable_display(v):
    if isinstance(v, (ast.Dict, ast.List, ast.Set, ast.ListComp, ast.DictComp, ast.SetComp)):
        return True
    if isinstance(v, ast.Call):
        f_ = u(v.func)
        return f_ in MUTABLE_CTORS or f_ not in IMMUTABLE_CALLS
    return False


def plain_container(v):
    """the object is one of the built-in containers, whose .clear() empties it completely"""
    return isinstance(v, (ast.Dict, ast.List, ast.Set, ast.ListComp, ast.DictComp, ast.SetComp)) or (isinstance(v, ast.Call) and u(v.func) in MUTABLE_CTORS)


def run(rep, tier):
    rep.trust(*common.PY_TRUST)
    rep.trust("antlr4 ParseTreeWalker fires enterX / children / exitX depth-first in child order; prediction caches of the generated classes (decisionsToDFA, sharedContextCache) are semantically transparent")
    E = common.eff(rep)
    ix = E.ix
    G = gm.Grammar(gm.read(gm.FILES["g4"], rep))
    gen = gm.class_tables(gm.read(gm.FILES["py_listener"], rep), "blackbirdListener")
    gen_handlers = {n.name for n in gen["cls"].body if isinstance(n, ast.FunctionDef)}
    tables = inventory(rep, E, ix)
    common.guarded(rep, "C12.2", c12_2, rep, ix, G, tables, gen_handlers)
    common.guarded(rep, "C12.3", c12_3, rep, E, ix, tables)


# ------------------------------------------------------------------ C12.1 inventory of process-wide mutable state
def inventory(rep, E, ix):
    R = "C12.1"
    rep.rule(R, "every module-level or class-level mutable object of the handwritten package is a proven constant or a table subject to the clear-before-use rule; no mutable default arguments", floor=4)
    tables = set()
    for m in ix.mods:
        for name, val in ix.module_globals(m).items():
            if not is_mutable_display(val):
                continue
            gid = "GLOBAL:%s.%s" % (m, name)
            if gid in E.written_globals:
                tables.add("%s.%s" % (m, name))
                rep.info(R, "%s.%s" % (m, name), "module-level mutable object written after import: treated as a process-wide table (C12.2 must show it is cleared before use in every load)")
                rep.check(plain_container(val), R, "%s.%s" % (m, name), "the process-wide table %s.%s is a built-in container, so that .clear() empties all of it" % (m, name),
                          "it is created by `%s`: clearing it is not known to remove everything it holds (e.g. ChainMap.clear() empties only the first mapping)" % " ".join(u(val).split())[:60],
                          key="%s.%s|container" % (m, name))
            else:
                rep.ok(R, "%s.%s" % (m, name), "module-level mutable object %s.%s is never written after import (constant table)" % (m, name))
        # rebinding through `global`
        for q, f in ix.funcs.items():
            if f.mod == m:
                for n in ast.walk(f.node):
                    if isinstance(n, ast.Global):
                        for nm in n.names:
                            rep.bad(R, ix.site(f, n), "no function rebinds a module-level name through `global` (hidden process-wide state)", "global %s" % nm, key="%s|global %s" % (q, nm))
    # class-level mutable attributes
    for cq, c in ix.classes.items():
        for n in c.body:
            if isinstance(n, ast.Assign) and is_mutable_display(n.value):
                for t in n.targets:
                    if isinstance(t, ast.Name):
                        attr = t.id
                        mutated = class_attr_mutated(ix, cq, attr)
                        rep.check(not mutated, R, "%s.%s" % (cq, attr), "class-level mutable attribute %s.%s is never mutated through instances (it would be shared by all instances in the process)" % (cq, attr),
                                  "mutated at %s" % mutated, key="%s.%s" % (cq, attr))
    # class-level / module-level constant tables with nested mutable content may only be deep-copied
    for cq, c in ix.classes.items():
        for n_ in c.body:
            if isinstance(n_, ast.Assign) and is_mutable_display(n_.value) and any(is_mutable_display(x) for x in ast.walk(n_.value) if x is not n_.value):
                for t in n_.targets:
                    if isinstance(t, ast.Name):
                        attr = t.id
                        for q, f in ix.funcs.items():
                            for ref in ast.walk(f.node):
                                if isinstance(ref, ast.Attribute) and ref.attr == attr and u(ref.value) in ("self", "cls", cq.split(".")[-1], "type(self)"):
                                    deep = any(isinstance(p_, ast.Call) and u(p_.func) in ("copy.deepcopy", "deepcopy") and p_.args and p_.args[0] is ref for p_ in ast.walk(f.node))
                                    rep.check(deep, R, ix.site(f, ref), "class-level table %s.%s (which nests mutable objects) is only ever deep-copied" % (cq, attr),
                                              "`%s` is used without copy.deepcopy: the nested objects are shared by every instance in the process" % u(ref), key="%s.%s|%s" % (cq, attr, q))
    # mutable default arguments
    n = 0
    for q, f in ix.funcs.items():
        a = f.node.args
        for d in list(a.defaults) + [x for x in a.kw_defaults if x is not None]:
            n += 1
            rep.check(not is_mutable_display(d), R, ix.site(f), "default argument `%s` of %s is not a mutable object" % (u(d), q), key="%s|default %s" % (q, u(d)))
    # arguments bound once and for all by a module-level / class-level functools.partial are default arguments by another name
    for m in ix.mods:
        holders = [(m, n_) for n_ in ix.mods[m].body] + [("%s.%s" % (m, c.name), n_) for c in ix.mods[m].body if isinstance(c, ast.ClassDef) for n_ in c.body]
        for where, st_ in holders:
            if isinstance(st_, (ast.FunctionDef, ast.AsyncFunctionDef, ast.ClassDef)):
                continue
            for c in ast.walk(st_):
                if isinstance(c, ast.Call) and u(c.func) in ("functools.partial", "partial", "functools.partialmethod", "partialmethod"):
                    for d in list(c.args[1:]) + [k.value for k in c.keywords]:
                        n += 1
                        shared = [x for x in ast.walk(d) if is_mutable_display(x)]
                        rep.check(not shared, R, "%s%s.py:%d %s" % (PKG_PREFIX, m, c.lineno, where), "argument `%s` bound by %s at import time is not a mutable object" % (" ".join(u(d).split())[:40], u(c.func)),
                                  "every call of the partial object receives this one object", key="%s|partial %s" % (where, " ".join(u(d).split())[:40]))
    rep.info(R, "blackbirdParser/blackbirdLexer", "generated classes hold decisionsToDFA / sharedContextCache at class level: prediction caches, semantically transparent (trusted runtime)")
    # process-wide state of libraries and the interpreter
    SETTERS = ("np.seterr", "numpy.seterr", "np.seterrcall", "np.set_printoptions", "warnings.simplefilter", "warnings.filterwarnings", "warnings.resetwarnings", "sys.setrecursionlimit",
               "locale.setlocale", "random.seed", "np.random.seed", "os.chdir", "os.environ.update", "os.putenv", "sym.init_printing", "decimal.setcontext", "functools.lru_cache", "lru_cache",
               "functools.cache", "cache")
    found = 0
    for q, f in ix.funcs.items():
        decos = {id(x) for d in f.node.decorator_list for x in ast.walk(d)}         # memoising decorators: rule MEMO.1
        for c in ast.walk(f.node):
            if id(c) in decos:
                continue
            if isinstance(c, ast.Call) and u(c.func) in SETTERS:
                found += 1
                rep.bad(R, ix.site(f, c), "the package does not change process-wide library / interpreter state", "`%s` persists beyond the load (also when the load fails before any restore)" % " ".join(u(c).split())[:60],
                        key="%s|%s" % (q, u(c.func)))
            if isinstance(c, ast.Subscript) and u(c.value) == "os.environ" and isinstance(c.ctx, ast.Store):
                rep.bad(R, ix.site(f, c), "the package does not change the process environment", key="%s|environ" % q)
    if not found:
        rep.ok(R, "package", "no call changes process-wide library or interpreter state (np.seterr, warnings filters, recursion limit, locale, seeds, memoisation decorators)")
    return tables


def class_attr_mutated(ix, cq, attr):
    """does any method mutate self.<attr> in place without the instance having its own binding from __init__?"""
    meths = ix.methods(cq)
    init = meths.get("__init__")
    if init is not None:
        for n in ast.walk(init.node):
            if isinstance(n, ast.Assign) and any(isinstance(t, ast.Attribute) and u(t.value) == "self" and t.attr == attr for t in n.targets):
                # bound per instance on the straight-line path of __init__ ?
                if n in init.node.body:
                    return None
    from ..py.eff import MUT_METHODS
    for name, f in meths.items():
        for n in ast.walk(f.node):
            tgt = None
            if isinstance(n, ast.Call) and isinstance(n.func, ast.Attribute) and n.func.attr in MUT_METHODS:
                tgt = n.func.value
            elif isinstance(n, (ast.Assign, ast.AugAssign, ast.Delete)):
                for t in (n.targets if not isinstance(n, ast.AugAssign) else [n.target]):
                    if isinstance(t, ast.Subscript):
                        tgt = t.value
                    elif isinstance(n, ast.AugAssign) and isinstance(t, ast.Attribute):
                        tgt = t
            if tgt is not None and isinstance(tgt, ast.Attribute) and tgt.attr == attr and u(tgt.value) in ("self", "cls", cq.split(".")[-1]):
                return ix.site(f, n)
    return None


# ------------------------------------------------------------------ C12.2 clear before use on every event path
def c12_2(rep, ix, G, tables, gen_handlers):
    R = "C12.2"
    rep.rule(R, "on every listener event path of a parse (grammar-derived; the previous load may have aborted anywhere), no process-wide table is read or written before it is cleared",
             floor=6)
    if not tables:
        rep.ok(R, "-", "the package has no process-wide table that is written after import")
        return
    ts = TS(ix, G, tables, generated_handlers=gen_handlers)
    ts.solve()
    rep.extra["tables"] = sorted(tables)
    rep.extra["handler_summaries"] = {h: {"may_use_first": sorted(ts.summ[f.qual].use_first), "must_clear": sorted(ts.summ[f.qual].must_clear)} for h, f in sorted(ts.handlers.items())}
    seen = set()
    for (h, t, path, ok, why) in ts.walk_checks:
        key = (h, t, ok)
        if key in seen:
            continue
        seen.add(key)
        site = "event %s (first reached via %s)" % (h, " > ".join(path) or "start of walk")
        text = "when %s fires, table %s has been cleared since the walk started, or the handler's first access clears it" % (h, t)
        if ok:
            rep.ok(R, site, text, why)
        else:
            rep.bad(R, site, text, "table may still hold data of an earlier load: " + why, key="%s|%s" % (h, t))
    # include isolation: after the nested walk of an included file the tables must not carry its entries into the including program
    seenf = set()
    for (h, t, path, ok, why) in ts.foreign_checks:
        if (h, t) in seenf:
            continue
        seenf.add((h, t))
        rep.bad(R, "event %s (after the nested walk of an include)" % h, "when %s fires, table %s holds no entries of an included file" % (h, t),
                "the included file's walk may end with the table filled, and nothing clears it before: " + why, key="foreign|%s|%s" % (h, t))
    rep.check(not ts.walk.ends_used, R, "walk of `start`", "a complete walk ends with every table cleared after its last use (nothing of this file remains for an including file)",
              "may end with %s still filled" % sorted(ts.walk.ends_used), key="walk ends clean")
    for q in ENTRY:
        f = ix.func(q)
        s = ts.summ[q]
        for t in sorted(tables):
            rep.check(t not in s.use_first, R, ix.site(f), "%s does not touch %s before it is cleared" % (q, t), s.use_first.get(t, ""), key="%s|%s" % (q, t))


# ------------------------------------------------------------------ C12.3 no escape of process-wide objects
def c12_3(rep, E, ix, tables):
    R = "C12.3"
    rep.rule(R, "no process-wide mutable object (or, for constant tables, any of its mutable content) is stored into a program, a listener or a return value", floor=10)
    tab_orig = {"GLOBAL:" + t for t in tables}
    all_glob = {"GLOBAL:%s.%s" % (m, n) for m, names in E.mutable_globals.items() for n in names}
    # constant tables whose display nests further mutable objects: their content must not escape either
    nested = set()
    for m, names in E.mutable_globals.items():
        g = ix.module_globals(m)
        for n_ in names:
            if "GLOBAL:%s.%s" % (m, n_) not in tab_orig and any(is_mutable_display(x) for x in ast.walk(g[n_]) if x is not g[n_]):
                nested.add("IN:GLOBAL:%s.%s" % (m, n_))
    const_orig = (all_glob - tab_orig) | nested
    rep.extra["constant_tables_with_nested_mutable_content"] = sorted(nested)
    n = 0
    for q, evs in sorted(E.events.items()):
        f = ix.funcs[q]
        for e in evs:
            if e.stored is None:
                continue
            n += 1
            leak_self = sorted(o for o in e.stored.self_o if o in tab_orig)
            leak_const = sorted(o for o in e.stored.reach if o in const_orig) if nonfresh(e.target.self_o) else []
            txt = " ".join(u(e.node).split())[:120]
            if leak_self and not all(o in e.target.self_o for o in leak_self):
                rep.bad(R, ix.site(f, e.node), "`%s` does not store a process-wide table object itself" % txt, "stores %s" % leak_self, key="%s|%s" % (q, txt))
            elif leak_const:
                rep.bad(R, ix.site(f, e.node), "`%s` does not let (content of) a module-level constant table escape into longer-lived objects" % txt,
                        "stores something reachable from %s into %s" % (leak_const, nonfresh(e.target.self_o)), key="%s|%s" % (q, txt))
            else:
                rep.ok(R, ix.site(f, e.node), "`%s` stores no process-wide object" % txt)
    for q, s in sorted(E.summ.items()):
        if s.ret is not None:
            leak = sorted(o for o in s.ret.self_o if o in all_glob) + sorted(o for o in s.ret.below if o in const_orig)
            rep.check(not leak, R, ix.site(ix.funcs[q]), "%s does not return a process-wide object" % q, "returns %s" % leak, key=q + "|return")
