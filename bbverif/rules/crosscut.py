"""cross-cutting rules: run for every property over the functions reachable from that property's entry points (DESIGN 15.5).

MEMO.1  a memoised function (functools.lru_cache / cache / cached_property) is a function of its arguments alone and its arguments are not
        numbers: the cache identifies keys that compare equal (1, 1.0, True; 0.0, -0.0; 1+0j), and replays the first result for all of them
DECO.1  every decorator of a reachable function is one the normal form reads (transparent, composed with its function, or a memoiser)
"""
import ast

from ..py.index import u
from . import common

LOAD = ["__init__.load", "__init__.loads", "listener.parse", "class:listener.BlackbirdListener", "class:listener.RegRefTransform", "class:error.BlackbirdErrorListener"]
SERIALIZE = ["__init__.dump", "__init__.dumps", "program.BlackbirdProgram.serialize"]
CALL = ["program.BlackbirdProgram.__call__"]
PROGRAM = ["class:program.BlackbirdProgram"]
UTILS = ["module:utils"]
ENTRIES = {
    "C01": LOAD + SERIALIZE, "C02": LOAD, "C03": LOAD, "C04": LOAD + CALL, "C05": LOAD, "C06": LOAD, "C07": LOAD + CALL, "C08": LOAD, "C09": SERIALIZE + PROGRAM,
    "C10": LOAD, "C11": LOAD + CALL, "C12": LOAD, "C13": PROGRAM + UTILS + CALL + SERIALIZE, "C15": LOAD + SERIALIZE + CALL, "C16": UTILS + LOAD, "C18": LOAD,
    "C19": LOAD + SERIALIZE + CALL + UTILS,
}
STR_METHODS = frozenset("startswith endswith isdigit isidentifier isalpha isalnum strip lstrip rstrip split rsplit splitlines lower upper replace encode format join partition "
                        "rpartition find index count isspace isnumeric isdecimal removeprefix removesuffix".split())


BUILTIN_CALLS = frozenset(dir(__import__("builtins")))


def expand_entries(ix, entries):
    out = []
    for e in entries:
        if e.startswith("class:"):
            cq = e[6:]
            cq = ix.class_alias.get(cq, cq)
            out += [q for q, f in ix.funcs.items() if f.cls == cq and q == f.qual]
        elif e.startswith("module:"):
            out += [q for q, f in ix.funcs.items() if f.mod == e[7:] and q == f.qual]
        elif e in ix.funcs:
            out.append(ix.funcs[e].qual)
    return out


def reachable(ix, entries):
    """quals of the package functions that may run when the entries run: every package function or class a reachable body names (called or
    passed on), every method whose name a reachable body uses as an attribute (over-approximation: receivers are not typed)"""
    by_method = {}
    for q, f in ix.funcs.items():
        if f.cls and q == f.qual:
            by_method.setdefault(f.name, []).append(q)
    seen, todo = set(), list(expand_entries(ix, entries))
    while todo:
        q = todo.pop()
        if q in seen or q not in ix.funcs:
            continue
        seen.add(q)
        f = ix.funcs[q]
        for tree in (getattr(f, "orig", None), f.node):
            if tree is None:
                continue
            for n in ast.walk(tree):
                if isinstance(n, ast.Name) and isinstance(n.ctx, ast.Load):
                    r = ix.resolve_name(f.mod, n.id)
                    if r in ix.funcs:
                        todo.append(ix.funcs[r].qual)
                    elif r in ix.classes:
                        # naming a class reaches its construction; its other methods are reached where their names are used
                        todo += [q2 for q2, g in ix.funcs.items() if g.cls == r and q2 == g.qual and g.name in ("__init__", "__new__", "__post_init__", "__init_subclass__")]
                    elif isinstance(getattr(n, "_parent_call", None), ast.Call):
                        pass
                elif isinstance(n, ast.Call) and isinstance(n.func, ast.Name) and ix.resolve_name(f.mod, n.func.id) is None and n.func.id not in BUILTIN_CALLS:
                    # a call through a local name (`bb(**kwargs)`): any callable object of the package may be behind it
                    todo += by_method.get("__call__", [])
                elif isinstance(n, ast.Attribute) and isinstance(n.ctx, ast.Load):
                    todo += by_method.get(n.attr, [])
                    if isinstance(n.value, ast.Name):
                        # module.function through `from . import utils` / `import blackbird.utils as utils`
                        imp = ix.imports.get(f.mod, {}).get(n.value.id)
                        if imp and imp[2] >= 1 and "%s.%s" % (imp[1], n.attr) in ix.funcs:
                            todo.append(ix.funcs["%s.%s" % (imp[1], n.attr)].qual)
    return seen


def string_only(fn, p):
    """parameter p is used as text only: annotated `str`, or every use is str(p) / a string method / a slice or index compared with text"""
    for a in fn.args.posonlyargs + fn.args.args + fn.args.kwonlyargs:
        if a.arg == p and a.annotation is not None and u(a.annotation) in ("str", "'str'"):
            return True
    parents = {}
    for n in ast.walk(fn):
        for c in ast.iter_child_nodes(n):
            parents[id(c)] = n
    uses = [n for n in ast.walk(fn) if isinstance(n, ast.Name) and n.id == p and isinstance(n.ctx, ast.Load)]
    if not uses:
        return True
    for x in uses:
        par = parents.get(id(x))
        if isinstance(par, ast.Call) and isinstance(par.func, ast.Name) and par.func.id == "str" and par.args == [x]:
            continue
        if isinstance(par, ast.Attribute) and par.attr in STR_METHODS:
            continue
        if isinstance(par, ast.Call) and isinstance(par.func, ast.Attribute) and par.func.attr in ("match", "fullmatch", "search") and x in par.args:
            continue
        return False
    return True


def memo_rule(rep, prop):
    R = "MEMO.1"
    rep.rule(R, "a memoised function (functools.lru_cache / cache / cached_property) reachable from this property's entry points is a function of its arguments alone "
                "(it reads no state that anything in the package writes), and its arguments are text: the cache identifies keys that compare equal - 1, 1.0 and True; "
                "0.0 and -0.0; 1 and 1+0j - and replays the first result for all of them", floor=1)
    E = common.eff(rep)
    ix = E.ix
    reach = reachable(ix, ENTRIES[prop])
    rep.extra["reachable_functions"] = len(reach)
    n = 0
    for q in sorted(reach):
        f = ix.funcs[q]
        for name in f.opaque:
            rep.unknown("DECO.1", ix.site(f), "decorator `@%s` of %s is one the analysis reads" % (name, q), "neither transparent, nor a package function that builds and returns a wrapper")
        if not f.memo:
            continue
        n += 1
        node = getattr(f, "orig", None) or f.node
        below = reachable(ix, [q])
        state = sorted({g for q2 in below if q2 in E.summ for g in E.summ[q2].reads_globals if g in E.written_globals})
        params = [p_ for p_ in f.params if not (f.cls and p_ in ("self", "cls"))]
        numeric = [p_ for p_ in params if not string_only(node, p_)]
        self_state = bool(f.cls) and "staticmethod" not in [u(d) for d in node.decorator_list] and any(m.startswith("cached_property") or m.endswith("cached_property") for m in f.memo) is False
        why = []
        if state:
            why.append("its result depends on %s, which the package rewrites" % ", ".join(s.split(":", 1)[-1] for s in state))
        if numeric:
            why.append("parameter `%s` may hold numbers: equal keys of different type or sign share one cached result" % "`, `".join(numeric))
        if self_state:
            why.append("it is a method: the cache is keyed by the instance and outlives every change of the instance's state")
        rep.check(not why, R, ix.site(f), "@%s on %s only memoises a function of textual arguments" % (f.memo[0], q), "; ".join(why), key="%s|memo" % q)
    if not n:
        rep.ok(R, "package", "no memoised function among the %d functions reachable from %s" % (len(reach), ", ".join(e.split(":")[-1] for e in ENTRIES[prop])))


def hazard_rule(rep, prop):
    """library calls whose result type is decided by the first element / first call (library model, validated by the thorough tier)"""
    R = "HAZ.1"
    rep.rule(R, "no reachable function maps values through np.vectorize / np.frompyfunc-free shortcuts that fix the result type from the first element: np.vectorize(f)(a) calls f on "
                "the first element to choose the output dtype and casts every later result to it (0.75 becomes 0 after an int), unless otypes=[object] is given", floor=1)
    ix = common.index(rep)
    reach = reachable(ix, ENTRIES[prop])
    n = 0
    for q in sorted(reach):
        f = ix.funcs[q]
        for c in ast.walk(getattr(f, "orig", None) or f.node):
            if isinstance(c, ast.Call) and u(c.func) in ("np.vectorize", "numpy.vectorize", "vectorize"):
                n += 1
                ot = [k for k in c.keywords if k.arg == "otypes"]
                ok = bool(ot) and any(isinstance(x, ast.Name) and x.id == "object" or isinstance(x, ast.Constant) and x.value in ("O", "object") for x in ast.walk(ot[0].value))
                rep.check(ok, R, ix.site(f, c), "`%s` keeps every result as computed (otypes=[object])" % " ".join(u(c).split())[:60],
                          "the output dtype is taken from the result for the first element; later results of another type are cast to it", key="%s|vectorize" % q)
    if not n:
        rep.ok(R, "package", "no np.vectorize among the %d reachable functions" % len(reach))


LOAD_SIDE = ("C02", "C03", "C05", "C06", "C07", "C08", "C10", "C11", "C12", "C18", "C01", "C04", "C15", "C19", "C16")
TEXT_PARSERS = ("np.genfromtxt", "numpy.genfromtxt", "np.loadtxt", "numpy.loadtxt", "np.fromstring", "numpy.fromstring", "np.matrix", "np.mat", "ast.literal_eval", "literal_eval", "eval", "exec",
                "json.loads", "sym.sympify", "sympy.sympify", "sympify", "sym.parse_expr", "sympy.parse_expr", "parse_expr", "sym.S", "sympy.S", "shlex.split", "csv.reader", "tokenize.generate_tokens")


def hazard_rule3(rep, prop):
    """a Python-language trap: a str is an Iterable (of its characters)"""
    R = "HAZ.3"
    rep.rule(R, "a branch taken for every `Iterable` value (collections.abc / typing) that takes the value apart is not reached by a string: a str is an Iterable of its "
                "characters, so names and string arguments (the p-array names of a tdm program among them) would be rebuilt from pieces; an earlier test must divert str", floor=0)
    ix = common.index(rep)
    reach = reachable(ix, ENTRIES[prop])
    for q in sorted(reach):
        f = ix.funcs[q]
        tree = getattr(f, "orig", None) or f.node

        def is_iter_test(t):
            """-> variable name if t is isinstance(<name>, Iterable-like) (alone or as a conjunct)"""
            for c in ([t] + (list(t.values) if isinstance(t, ast.BoolOp) and isinstance(t.op, ast.And) else [])):
                if isinstance(c, ast.Call) and u(c.func) == "isinstance" and len(c.args) == 2 and isinstance(c.args[0], ast.Name):
                    cls = c.args[1].elts if isinstance(c.args[1], ast.Tuple) else [c.args[1]]
                    if any(u(k).split(".")[-1] in ("Iterable", "Sequence", "Collection", "Container", "Sized", "Reversible") for k in cls) and not any(u(k) in ("str", "bytes") for k in cls):
                        return c.args[0].id
            return None

        def str_test(t, x):
            for c in ast.walk(t):
                if isinstance(c, ast.Call) and u(c.func) == "isinstance" and len(c.args) == 2 and u(c.args[0]) == x:
                    cls = c.args[1].elts if isinstance(c.args[1], ast.Tuple) else [c.args[1]]
                    if any(u(k) in ("str", "(str, bytes)") for k in cls):
                        return True
            return False

        def takes_apart(body, x):
            for s_ in body:
                for n in ast.walk(s_):
                    if isinstance(n, (ast.For, ast.comprehension)) and isinstance(n.iter, ast.Name) and n.iter.id == x:
                        return True
                    if isinstance(n, ast.Call) and u(n.func) in ("list", "tuple", "set", "sorted", "enumerate", "iter", "map", "zip") and any(isinstance(a, ast.Name) and a.id == x for a in n.args):
                        return True
            return False

        # values the caller passes to a template call (**kwargs) are numbers or arrays by the property's own quantifier: a test on them is not
        # a test on program content
        kwp = tree.args.kwarg.arg if getattr(tree, "args", None) is not None and tree.args.kwarg else None
        caller_values = set()
        if kwp:
            for n in ast.walk(tree):
                if isinstance(n, (ast.For, ast.comprehension)) and u(n.iter) in ("%s.items()" % kwp, "%s.values()" % kwp):
                    caller_values |= {x_.id for x_ in ast.walk(n.target) if isinstance(x_, ast.Name)}

        def scan(stmts, diverted):
            div = set(diverted) | caller_values
            for s_ in stmts:
                if isinstance(s_, ast.If):
                    # walk the elif ladder
                    cur, local = s_, set(div)
                    while True:
                        x = is_iter_test(cur.test)
                        if x and x not in local and not str_test(cur.test, x) and takes_apart(cur.body, x):
                            rep.bad(R, ix.site(f, cur), "`%s`: a string does not reach the branch for iterable values" % " ".join(u(cur.test).split())[:70],
                                    "no earlier test diverts str, and the branch takes `%s` apart: a string such as 'p0' is rebuilt from its characters "
                                    "(type(value)(<generator>) of a str is the text '<generator object ...>')" % x, key="%s|iterable|%s" % (q, x))
                        for w in ast.walk(cur.test):
                            if isinstance(w, ast.Call) and u(w.func) == "isinstance" and len(w.args) == 2 and isinstance(w.args[0], ast.Name) and str_test(cur.test, w.args[0].id):
                                local.add(w.args[0].id)
                                from ..py import exh as _exh
                                if _exh.terminates(cur.body) and cur is s_:
                                    div.add(w.args[0].id)
                        scan(cur.body, local)
                        if len(cur.orelse) == 1 and isinstance(cur.orelse[0], ast.If):
                            cur = cur.orelse[0]
                        else:
                            scan(cur.orelse, local)
                            break
                else:
                    for fld in ("body", "orelse", "finalbody"):
                        b = getattr(s_, fld, None)
                        if isinstance(b, list) and b and isinstance(b[0], ast.stmt) and not isinstance(s_, (ast.FunctionDef, ast.ClassDef)):
                            scan(b, div)
        scan(tree.body, set())
    if not any(o.rule == R for o in rep.obs):
        rep.ok(R, "-", "no branch for Iterable values is reachable by a string in the %d reachable functions" % len(reach))


def hazard_rule2(rep, prop):
    """further library hazards (library model): floating-point error state, second parsers of script text, float conversion of unbounded ints"""
    R = "HAZ.2"
    rep.rule(R, "reachable code does not (a) make NumPy raise on underflow (np.errstate / np.seterr with all= or under= 'raise'/'call': an underflow to zero or to a subnormal is the "
                "correct value of a valid expression), (b) hand script text to a second parser (np.genfromtxt, ast.literal_eval, sympify, ...: other line-end, number and error "
                "conventions than the grammar's), (c) push a Python int through a float conversion while writing it (math./cmath. predicates: OverflowError beyond 2**1024)", floor=1)
    ix = common.index(rep)
    reach = reachable(ix, ENTRIES[prop])
    n = 0
    for q in sorted(reach):
        f = ix.funcs[q]
        tree = getattr(f, "orig", None) or f.node
        for c in ast.walk(tree):
            if not isinstance(c, ast.Call):
                continue
            name = u(c.func)
            if name in ("np.errstate", "numpy.errstate", "np.seterr", "numpy.seterr"):
                armed = [k for k in c.keywords if k.arg in ("all", "under") and isinstance(k.value, ast.Constant) and k.value.value in ("raise", "call")]
                n += 1
                rep.check(not armed, R, ix.site(f, c), "`%s` leaves underflow alone" % " ".join(u(c).split())[:60],
                          "with %s=%r a valid expression whose value underflows (exp(-800), 1e-200*1e-200) is refused instead of evaluating to 0.0" % (armed[0].arg, armed[0].value.value) if armed else "",
                          key="%s|errstate" % q)
            elif name == "hash" and len(c.args) == 1 and not (f.name == "__hash__"):
                n += 1
                rep.bad(R, ix.site(f, c), "nothing that is written or stored depends on hash()", "`%s`: the hash of a str / bytes object differs from process to process (PYTHONHASHSEED)"
                        % " ".join(u(c).split())[:60], key="%s|hash" % q)
            elif name in TEXT_PARSERS and prop in LOAD_SIDE and f.mod in ("listener", "auxiliary", "__init__", "error") and c.args and not isinstance(c.args[0], ast.Constant):
                n += 1
                rep.bad(R, ix.site(f, c), "script text is read by the generated recogniser only", "`%s` parses text with conventions of its own (line ends, number forms, what counts as an error)"
                        % " ".join(u(c).split())[:60], key="%s|%s" % (q, name))
            elif prop in ("C01", "C09", "C15", "C13") and f.mod == "program" and (name.startswith(("math.", "cmath.")) or name in ("float",)) and len(c.args) == 1 and isinstance(c.args[0], ast.Name):
                # inside a handler that catches the overflow it is harmless
                guarded_ = False
                for t in ast.walk(tree):
                    if isinstance(t, ast.Try) and any(x is c for b_ in t.body for x in ast.walk(b_)):
                        for h in t.handlers:
                            if h.type is None or any(k in u(h.type) for k in ("OverflowError", "ArithmeticError", "Exception", "BaseException")):
                                guarded_ = True
                n += 1
                rep.check(guarded_, R, ix.site(f, c), "`%s` cannot fail for an integer of any size" % " ".join(u(c).split())[:50],
                          "the argument is converted to a float first: OverflowError for a Python int of 1024 bits or more, which the serialiser otherwise writes exactly", key="%s|%s" % (q, name))
    if not n:
        rep.ok(R, "package", "none of the listed library hazards among the %d reachable functions" % len(reach))


def shared_load_rules(rep, prop):
    """necessary conditions of every property that is observed through load / loads: the caller's characters reach the generated lexer as they
    are (C10.2), and the included file is the one the path names (C07.1) - run here for the properties whose own module does not run them"""
    done = {o.rule for o in rep.obs}
    ix = common.index(rep)
    if prop in LOAD_SIDE and not ({"C10.2", "C18.4"} & done):
        from . import c10
        common.guarded(rep, "C10.2", c10.c10_2, rep, ix)
    if prop in ("C02", "C11", "C12") and "C07.1" not in done:
        from . import c07
        common.guarded(rep, "C07.1", c07.c07_1, rep, ix)
    # which names are delivered by name instead of by value (and which parameters are withheld from the reported ones) is decided by the p-type
    # predicate alone: a looser predicate turns ordinary variables and parameters of tdm programs into something else (shared with C15)
    if prop in LOAD_SIDE and "C15.1" not in done:
        from . import c15
        common.guarded(rep, "C15.1", c15.c15_1, rep, ix, True)


def run(rep, prop):
    if prop not in ENTRIES:
        return
    common.guarded(rep, "LOAD", shared_load_rules, rep, prop)
    common.guarded(rep, "MEMO.1", memo_rule, rep, prop)
    common.guarded(rep, "HAZ.1", hazard_rule, rep, prop)
    common.guarded(rep, "HAZ.2", hazard_rule2, rep, prop)
    common.guarded(rep, "HAZ.3", hazard_rule3, rep, prop)
