"""K1 - every rule method of the generated Python parser, translated structurally into a regular expression over tokens / rule calls /
precedence predicates, is language-equivalent to the rule's ATN sub-machine (DESIGN 4.3 K1)."""
import ast
import re

from ..report import Inconclusive
from ..gram import model as gm, nfa
from ..py.index import u

EPS_CALLS = ("enterOuterAlt", "enterRule", "exitRule", "enterRecursionRule", "unrollRecursionContexts", "pushNewRecursionContext", "triggerExitRuleEvent",
             "sync", "reportError", "recover", "reportMatch", "consume")


class K1:
    def __init__(self, M):
        self.M = M
        self.tok = {k: v for k, v in M.ptab["consts"].items() if not k.startswith("RULE_")}
        self.tok["EOF"] = -1
        self.rules = {n: i for i, n in enumerate(M.ptab["ruleNames"])}
        self.A = M.PA

    # ---- regex AST: ('eps',) ('sym', s) ('seq', [..]) ('alt', [..]) ('star', x) ('plus', x) ('opt', x)
    def tokens_of(self, cond):
        names = re.findall(r"blackbirdParser\.([A-Z][A-Z_0-9]*)", u(cond))
        if not names or any(n not in self.tok for n in names):
            raise Inconclusive("K1: token condition `%s`" % u(cond)[:60])
        return sorted(set(names))

    def sym_tokens(self, names):
        return ("alt", [("sym", ("T", self.tok[n])) for n in names])

    def call_sym(self, call):
        """self.match(T) | self.rule(prec)"""
        f = call.func
        if isinstance(f, ast.Attribute) and u(f.value) == "self":
            if f.attr == "match" and len(call.args) == 1:
                names = self.tokens_of(call.args[0])
                return ("sym", ("T", self.tok[names[0]]))
            if f.attr in self.rules:
                prec = 0
                if call.args:
                    prec = ast.literal_eval(call.args[0])
                return ("sym", ("R", self.rules[f.attr], prec))
        return None

    def is_eps_stmt(self, s):
        if isinstance(s, ast.Pass):
            return True
        if isinstance(s, ast.Expr) and isinstance(s.value, ast.Call):
            f = s.value.func
            if isinstance(f, ast.Attribute) and f.attr in EPS_CALLS:
                return True
            if isinstance(f, ast.Attribute) and f.attr == "append" and u(f.value).startswith("localctx."):
                return True
        if isinstance(s, ast.Assign):
            t = u(s.targets[0])
            v = s.value
            if t in ("self.state", "self._la", "_la", "token", "_prevctx", "self._ctx", "self._ctx.stop", "localctx.exception", "_startState", "_parentctx", "_parentState") or t.startswith("localctx.op"):
                return not (isinstance(v, ast.Call) and self.call_sym(v))
            if t in ("la_", "_alt"):
                return True
            if t == "localctx" and not (isinstance(v, ast.Call) and self.call_sym(v)):
                return True
        if isinstance(s, ast.If) and "_parseListeners" in u(s.test):
            return True
        return False

    def block(self, stmts):
        out = []
        i = 0
        while i < len(stmts):
            s = stmts[i]
            if self.is_eps_stmt(s):
                i += 1
                continue
            if isinstance(s, ast.Expr) and isinstance(s.value, ast.Call):
                sym = self.call_sym(s.value)
                if sym:
                    out.append(sym)
                    i += 1
                    continue
            if isinstance(s, ast.Assign) and isinstance(s.value, ast.Call):
                sym = self.call_sym(s.value)
                if sym and u(s.targets[0]).startswith("localctx."):
                    out.append(sym)
                    i += 1
                    continue
            if isinstance(s, ast.If):
                out.append(self.if_stmt(s))
                i += 1
                continue
            if isinstance(s, ast.While):
                out.append(self.while_stmt(s))
                i += 1
                continue
            if isinstance(s, ast.Try):
                out.append(self.block(s.body))
                i += 1
                continue
            if isinstance(s, ast.Return):
                i += 1
                continue
            raise Inconclusive("K1: statement `%s` in a rule method" % " ".join(u(s).split())[:70])
        return ("seq", out)

    def decision_alts(self, d):
        st = self.A.states[self.A.decisions[d]]
        return len(st.trans)

    def if_stmt(self, s):
        t = u(s.test)
        # precedence predicate
        m = re.fullmatch(r"not self\.precpred\(self\._ctx, (\d+)\)", t)
        if m:
            if not (len(s.body) >= 1 and "FailedPredicateException" in u(s.body[-1])):
                raise Inconclusive("K1: precpred guard without FailedPredicateException")
            return ("sym", ("P", int(m.group(1))))
        # set match
        if t.startswith("not(") or t.startswith("not ("):
            if s.orelse and "recoverInline" in u(s.body[0]) and "consume" in u(ast.Module(body=s.orelse, type_ignores=[])):
                return self.sym_tokens(self.tokens_of(s.test))
        # LL1 switch
        if t.startswith("token in ["):
            alts = []
            cur = s
            while True:
                alts.append(self.block(cur.body))
                if len(cur.orelse) == 1 and isinstance(cur.orelse[0], ast.If) and u(cur.orelse[0].test).startswith("token in ["):
                    cur = cur.orelse[0]
                    continue
                els = cur.orelse
                break
            if els and "NoViableAltException" in u(els[0]):
                return ("alt", alts)
            if all(self.is_eps_stmt(x) for x in els):
                return ("alt", alts + [("eps",)])
            raise Inconclusive("K1: LL1 switch else-branch")
        # adaptive alternatives
        if re.fullmatch(r"la_ == \d+", t):
            alts = []
            cur = s
            while True:
                alts.append(self.block(cur.body))
                if len(cur.orelse) == 1 and isinstance(cur.orelse[0], ast.If) and re.fullmatch(r"la_ == \d+", u(cur.orelse[0].test)):
                    cur = cur.orelse[0]
                    continue
                if cur.orelse:
                    raise Inconclusive("K1: adaptive alternatives with an else branch")
                break
            d = self.last_decision
            if d is None:
                raise Inconclusive("K1: `la_` tested without a preceding adaptivePredict")
            n = self.decision_alts(d)
            if n == len(alts):
                return ("alt", alts)
            if n == len(alts) + 1:
                return ("alt", alts + [("eps",)])
            raise Inconclusive("K1: decision %d has %d alternatives in the ATN but %d in the code" % (d, n, len(alts)))
        # LL1 optional
        if "_la" in t and "blackbirdParser." in t and not s.orelse:
            return ("opt", self.block(s.body))
        raise Inconclusive("K1: if-statement `%s`" % t[:70])

    def while_stmt(self, s):
        t = " ".join(u(s.test).split())
        if t == "True":
            # plus loop: body ... if not(COND): break
            body = list(s.body)
            if isinstance(body[-1], ast.If) and u(body[-1].test).startswith("not") and isinstance(body[-1].body[0], ast.Break):
                return ("plus", self.block(body[:-1]))
            raise Inconclusive("K1: while True loop")
        if t.startswith("_alt != 2 and _alt != ATN.INVALID_ALT_NUMBER"):
            inner = [x for x in s.body if isinstance(x, ast.If) and re.fullmatch(r"_alt\s*==\s*1", u(x.test))]
            if len(inner) != 1:
                raise Inconclusive("K1: adaptive loop body")
            plus = bool(inner[0].orelse) and "NoViableAltException" in u(inner[0].orelse[0])
            b = self.block(inner[0].body)
            return ("plus", b) if plus else ("star", b)
        if "_la" in t and "blackbirdParser." in t:
            return ("star", self.block(s.body))
        raise Inconclusive("K1: while-statement `%s`" % t[:70])

    # ---- regex -> NFA
    def build(self, n, node, s):
        k = node[0]
        if k == "eps":
            return s
        if k == "sym":
            e = n.new()
            n.add(s, node[1], e)
            return e
        if k == "seq":
            for x in node[1]:
                s = self.build(n, x, s)
            return s
        if k == "alt":
            e = n.new()
            for x in node[1]:
                b = n.new()
                n.add_eps(s, b)
                n.add_eps(self.build(n, x, b), e)
            return e
        if k in ("star", "plus", "opt"):
            b = n.new()
            e = n.new()
            n.add_eps(s, b)
            x = self.build(n, node[1], b)
            n.add_eps(x, e)
            if k in ("star", "opt"):
                n.add_eps(s, e)
            if k in ("star", "plus"):
                n.add_eps(x, b)
            return e
        raise Inconclusive("K1: regex node %r" % (k,))

    def method_regex(self, fn):
        self.last_decision = None
        # track the decision number of the latest adaptivePredict in program order: annotate by a pre-pass
        self.decisions_in_order = [int(m) for m in re.findall(r"adaptivePredict\(self\._input,\s*(\d+),", u(fn))]
        tr = [s for s in fn.body if isinstance(s, ast.Try)]
        if len(tr) != 1:
            raise Inconclusive("K1: rule method without a single try block")
        return self.block_with_decisions(tr[0].body)

    def block_with_decisions(self, stmts):
        # wrap block(): keep last_decision updated by scanning assignments `la_ = ...adaptivePredict(..., d, ...)`
        orig = self.is_eps_stmt

        def eps(s):
            if isinstance(s, ast.Assign) and u(s.targets[0]) in ("la_", "_alt") and "adaptivePredict" in u(s.value):
                m = re.search(r"adaptivePredict\(self\._input,\s*(\d+),", u(s.value))
                if u(s.targets[0]) == "la_":
                    self.last_decision = int(m.group(1))
            return orig(s)
        self.is_eps_stmt = eps
        try:
            return self.block(stmts)
        finally:
            self.is_eps_stmt = orig


def k1(rep, M):
    R = "C14.K1"
    rep.rule(R, "each rule method of the generated Python parser, read as a regular expression over token matches, rule calls (with precedence argument) and precedence predicates, "
                "accepts the same language as the rule's ATN sub-machine", floor=len(M.G.prules))
    k = K1(M)
    meths = {n.name: n for n in M.ptab["cls"].body if isinstance(n, ast.FunctionDef)}
    for r in M.G.prules:
        fn = meths.get(r.name)
        if fn is None:
            rep.bad(R, "blackbirdParser." + r.name, "rule method exists")
            continue
        try:
            rx = k.method_regex(fn)
        except Inconclusive as e:
            rep.unknown(R, "blackbirdParser." + r.name, "rule method follows the ANTLR 4.9.2 Python templates", str(e))
            continue
        n = nfa.NFA()
        s = n.new()
        n.start = s
        n.accept = {k.build(n, rx, s)}
        a = gm.atn_rule_nfa(M.PA, M.G.pidx[r.name])
        res = nfa.equivalent(n, a)
        if res is None:
            rep.ok(R, "blackbirdParser." + r.name, "L(code of %s()) = L(ATN sub-machine %d)" % (r.name, M.G.pidx[r.name]))
        else:
            from .c14 import fmt_word
            w, side = res
            rep.bad(R, "blackbirdParser." + r.name, "L(code of %s()) = L(ATN sub-machine %d)" % (r.name, M.G.pidx[r.name]),
                    "shortest distinguishing word [%s] accepted only by the %s" % (fmt_word(M.G, M, w), "generated code" if side == "left" else "ATN"))
