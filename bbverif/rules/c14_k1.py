"""K1 - every rule method of the generated Python parser, translated structurally into a regular expression over tokens / rule calls /
precedence predicates, is language-equivalent to the rule's ATN sub-machine (DESIGN 4.3 K1)."""
import ast
import re

from ..report import Inconclusive
from ..gram import model as gm, nfa
from ..py.index import u

EPS_CALLS = ("enterOuterAlt", "enterRule", "exitRule", "enterRecursionRule", "unrollRecursionContexts", "pushNewRecursionContext", "triggerExitRuleEvent",
             "sync", "reportError", "recover", "reportMatch", "consume")


class K1:
    def __init__(self, M):
        self.M = M
        self.tok = {k: v for k, v in M.ptab["consts"].items() if not k.startswith("RULE_")}
        self.tok["EOF"] = -1
        self.rules = {n: i for i, n in enumerate(M.ptab["ruleNames"])}
        self.A = M.PA

    # ---- regex AST: ('eps',) ('sym', s) ('seq', [..]) ('alt', [..]) ('star', x) ('plus', x) ('opt', x)
    def tokens_of(self, cond):
        names = re.findall(r"blackbirdParser\.([A-Z][A-Z_0-9]*)", u(cond))
        if not names or any(n not in self.tok for n in names):
            raise Inconclusive("K1: token condition `%s`" % u(cond)[:60])
        return sorted(set(names))

    def sym_tokens(self, names):
        return ("alt", [("sym", ("T", self.tok[n])) for n in names])

    def call_sym(self, call):
        """self.match(T) | self.rule(prec)"""
        f = call.func
        if isinstance(f, ast.Attribute) and u(f.value) == "self":
            if f.attr == "match" and len(call.args) == 1:
                names = self.tokens_of(call.args[0])
                return ("sym", ("T", self.tok[names[0]]))
            if f.attr in self.rules:
                prec = 0
                if call.args:
                    prec = ast.literal_eval(call.args[0])
                return ("sym", ("R", self.rules[f.attr], prec))
        return None

    def is_eps_stmt(self, s):
        if isinstance(s, ast.Pass):
            return True
        if isinstance(s, ast.Expr) and isinstance(s.value, ast.Call):
            f = s.value.func
            if isinstance(f, ast.Attribute) and f.attr in EPS_CALLS:
                return True
            if isinstance(f, ast.Attribute) and f.attr == "append" and u(f.value).startswith("localctx."):
                return True
        if isinstance(s, ast.Assign):
            t = u(s.targets[0])
            v = s.value
            if t in ("self.state", "self._la", "_la", "token", "_prevctx", "self._ctx", "self._ctx.stop", "localctx.exception", "_startState", "_parentctx", "_parentState") or t.startswith("localctx.op"):
                return not (isinstance(v, ast.Call) and self.call_sym(v))
            if t in ("la_", "_alt"):
                return True
            if t == "localctx" and not (isinstance(v, ast.Call) and self.call_sym(v)):
                return True
        if isinstance(s, ast.If) and "_parseListeners" in u(s.test):
            return True
        return False

    def block(self, stmts):
        out = []
        i = 0
        while i < len(stmts):
            s = stmts[i]
            if self.is_eps_stmt(s):
                i += 1
                continue
            if isinstance(s, ast.Expr) and isinstance(s.value, ast.Call):
                sym = self.call_sym(s.value)
                if sym:
                    out.append(sym)
                    i += 1
                    continue
            if isinstance(s, ast.Assign) and isinstance(s.value, ast.Call):
                sym = self.call_sym(s.value)
                if sym and u(s.targets[0]).startswith("localctx."):
                    out.append(sym)
                    i += 1
                    continue
            if isinstance(s, ast.If):
                out.append(self.if_stmt(s))
                i += 1
                continue
            if isinstance(s, ast.While):
                out.append(self.while_stmt(s))
                i += 1
                continue
            if isinstance(s, ast.Try):
                out.append(self.block(s.body))
                i += 1
                continue
            if isinstance(s, ast.Return):
                i += 1
                continue
            raise Inconclusive("K1: statement `%s` in a rule method" % " ".join(u(s).split())[:70])
        return ("seq", out)

    def decision_alts(self, d):
        st = self.A.states[self.A.decisions[d]]
        return len(st.trans)

    def if_stmt(self, s):
        t = u(s.test)
        # precedence predicate
        m = re.fullmatch(r"not self\.precpred\(self\._ctx, (\d+)\)", t)
        if m:
            if not (len(s.body) >= 1 and "FailedPredicateException" in u(s.body[-1])):
                raise Inconclusive("K1: precpred guard without FailedPredicateException")
            return ("sym", ("P", int(m.group(1))))
        # set match: `if <test>: recoverInline(...) else: reportMatch; consume` - the tokens matched are those for which the test is false
        # (decided by the truth table of the test over all token types, whatever way the test is spelled or parenthesised)
        if s.orelse and s.body and "recoverInline" in u(s.body[0]) and "consume" in u(ast.Module(body=s.orelse, type_ignores=[])):
            consts = dict(self.tok)
            consts["EOF"] = -1
            matched = [n for n, v in sorted(self.tok.items(), key=lambda kv: kv[1]) if not CondEval(consts, v).ev(s.test)]
            if not matched:
                raise Inconclusive("K1: set match `%s` matches no token" % t[:60])
            return self.sym_tokens(matched)
        # LL1 switch
        if t.startswith("token in ["):
            alts = []
            cur = s
            while True:
                alts.append(self.block(cur.body))
                if len(cur.orelse) == 1 and isinstance(cur.orelse[0], ast.If) and u(cur.orelse[0].test).startswith("token in ["):
                    cur = cur.orelse[0]
                    continue
                els = cur.orelse
                break
            if els and "NoViableAltException" in u(els[0]):
                return ("alt", alts)
            if all(self.is_eps_stmt(x) for x in els):
                return ("alt", alts + [("eps",)])
            raise Inconclusive("K1: LL1 switch else-branch")
        # adaptive alternatives
        if re.fullmatch(r"la_ == \d+", t):
            alts = []
            cur = s
            while True:
                alts.append(self.block(cur.body))
                if len(cur.orelse) == 1 and isinstance(cur.orelse[0], ast.If) and re.fullmatch(r"la_ == \d+", u(cur.orelse[0].test)):
                    cur = cur.orelse[0]
                    continue
                if cur.orelse:
                    raise Inconclusive("K1: adaptive alternatives with an else branch")
                break
            d = self.last_decision
            if d is None:
                raise Inconclusive("K1: `la_` tested without a preceding adaptivePredict")
            n = self.decision_alts(d)
            if n == len(alts):
                return ("alt", alts)
            if n == len(alts) + 1:
                return ("alt", alts + [("eps",)])
            raise Inconclusive("K1: decision %d has %d alternatives in the ATN but %d in the code" % (d, n, len(alts)))
        # LL1 optional
        if "_la" in t and "blackbirdParser." in t and not s.orelse:
            return ("opt", self.block(s.body))
        raise Inconclusive("K1: if-statement `%s`" % t[:70])

    def while_stmt(self, s):
        t = " ".join(u(s.test).split())
        if t == "True":
            # plus loop: body ... if not(COND): break
            body = list(s.body)
            if isinstance(body[-1], ast.If) and u(body[-1].test).startswith("not") and isinstance(body[-1].body[0], ast.Break):
                return ("plus", self.block(body[:-1]))
            raise Inconclusive("K1: while True loop")
        if t.startswith("_alt != 2 and _alt != ATN.INVALID_ALT_NUMBER"):
            inner = [x for x in s.body if isinstance(x, ast.If) and re.fullmatch(r"_alt\s*==\s*1", u(x.test))]
            if len(inner) != 1:
                raise Inconclusive("K1: adaptive loop body")
            plus = bool(inner[0].orelse) and "NoViableAltException" in u(inner[0].orelse[0])
            b = self.block(inner[0].body)
            return ("plus", b) if plus else ("star", b)
        if "_la" in t and "blackbirdParser." in t:
            return ("star", self.block(s.body))
        raise Inconclusive("K1: while-statement `%s`" % t[:70])

    # ---- regex -> NFA
    def build(self, n, node, s):
        k = node[0]
        if k == "eps":
            return s
        if k == "sym":
            e = n.new()
            n.add(s, node[1], e)
            return e
        if k == "seq":
            for x in node[1]:
                s = self.build(n, x, s)
            return s
        if k == "alt":
            e = n.new()
            for x in node[1]:
                b = n.new()
                n.add_eps(s, b)
                n.add_eps(self.build(n, x, b), e)
            return e
        if k in ("star", "plus", "opt"):
            b = n.new()
            e = n.new()
            n.add_eps(s, b)
            x = self.build(n, node[1], b)
            n.add_eps(x, e)
            if k in ("star", "opt"):
                n.add_eps(s, e)
            if k in ("star", "plus"):
                n.add_eps(x, b)
            return e
        raise Inconclusive("K1: regex node %r" % (k,))

    def method_regex(self, fn):
        self.last_decision = None
        # track the decision number of the latest adaptivePredict in program order: annotate by a pre-pass
        self.decisions_in_order = [int(m) for m in re.findall(r"adaptivePredict\(self\._input,\s*(\d+),", u(fn))]
        tr = [s for s in fn.body if isinstance(s, ast.Try)]
        if len(tr) != 1:
            raise Inconclusive("K1: rule method without a single try block")
        return self.block_with_decisions(tr[0].body)

    def block_with_decisions(self, stmts):
        # wrap block(): keep last_decision updated by scanning assignments `la_ = ...adaptivePredict(..., d, ...)`
        orig = self.is_eps_stmt

        def eps(s):
            if isinstance(s, ast.Assign) and u(s.targets[0]) in ("la_", "_alt") and "adaptivePredict" in u(s.value):
                m = re.search(r"adaptivePredict\(self\._input,\s*(\d+),", u(s.value))
                if u(s.targets[0]) == "la_":
                    self.last_decision = int(m.group(1))
            return orig(s)
        self.is_eps_stmt = eps
        try:
            return self.block(stmts)
        finally:
            self.is_eps_stmt = orig


def k1(rep, M):
    R = "C14.K1"
    rep.rule(R, "each rule method of the generated Python parser, read as a regular expression over token matches, rule calls (with precedence argument) and precedence predicates, "
                "accepts the same language as the rule's ATN sub-machine", floor=len(M.G.prules))
    k = K1(M)
    meths = {n.name: n for n in M.ptab["cls"].body if isinstance(n, ast.FunctionDef)}
    for r in M.G.prules:
        fn = meths.get(r.name)
        if fn is None:
            rep.bad(R, "blackbirdParser." + r.name, "rule method exists")
            continue
        try:
            rx = k.method_regex(fn)
        except Inconclusive as e:
            rep.unknown(R, "blackbirdParser." + r.name, "rule method follows the ANTLR 4.9.2 Python templates", str(e))
            continue
        n = nfa.NFA()
        s = n.new()
        n.start = s
        n.accept = {k.build(n, rx, s)}
        a = gm.atn_rule_nfa(M.PA, M.G.pidx[r.name])
        res = nfa.equivalent(n, a)
        if res is None:
            rep.ok(R, "blackbirdParser." + r.name, "L(code of %s()) = L(ATN sub-machine %d)" % (r.name, M.G.pidx[r.name]))
        else:
            from .c14 import fmt_word
            w, side = res
            rep.bad(R, "blackbirdParser." + r.name, "L(code of %s()) = L(ATN sub-machine %d)" % (r.name, M.G.pidx[r.name]),
                    "shortest distinguishing word [%s] accepted only by the %s" % (fmt_word(M.G, M, w), "generated code" if side == "left" else "ATN"))


# ------------------------------------------------------------------------------------------------ K1b: decisions and state numbers
class CondEval:
    """truth value of a generated lookahead condition for one token type (finite-model evaluation over all token types)"""

    def __init__(self, consts, value):
        self.consts, self.value = consts, value

    def ev(self, e):
        if isinstance(e, ast.Constant) and isinstance(e.value, (int, bool)):
            return e.value
        if isinstance(e, ast.Name) and e.id in ("_la", "token", "la_"):
            return self.value
        if isinstance(e, ast.Attribute) and u(e.value) in ("blackbirdParser", "self", "Token") and e.attr in self.consts:
            return self.consts[e.attr]
        if isinstance(e, (ast.List, ast.Tuple, ast.Set)):
            return [self.ev(x) for x in e.elts]
        if isinstance(e, ast.UnaryOp):
            v = self.ev(e.operand)
            if isinstance(e.op, ast.Not):
                return not v
            if isinstance(e.op, ast.Invert):
                return ~v
            if isinstance(e.op, ast.USub):
                return -v
        if isinstance(e, ast.BoolOp):
            vals = [self.ev(x) for x in e.values]
            return all(vals) if isinstance(e.op, ast.And) else any(vals)
        if isinstance(e, ast.BinOp):
            a, b = self.ev(e.left), self.ev(e.right)
            if isinstance(e.op, ast.BitAnd): return a & b
            if isinstance(e.op, ast.BitOr): return a | b
            if isinstance(e.op, ast.LShift): return a << b if b >= 0 else 0
            if isinstance(e.op, ast.Sub): return a - b
            if isinstance(e.op, ast.Add): return a + b
        if isinstance(e, ast.Compare) and len(e.ops) == 1:
            a, b = self.ev(e.left), self.ev(e.comparators[0])
            op = e.ops[0]
            if isinstance(op, ast.Eq): return a == b
            if isinstance(op, ast.NotEq): return a != b
            if isinstance(op, ast.In): return a in b
            if isinstance(op, ast.NotIn): return a not in b
            if isinstance(op, ast.Lt): return a < b
            if isinstance(op, ast.LtE): return a <= b
            if isinstance(op, ast.Gt): return a > b
            if isinstance(op, ast.GtE): return a >= b
        raise Inconclusive("K1b: lookahead condition `%s`" % u(e)[:70])


def k1b(rep, M):
    """(1) every LL(1) token test of a rule method equals the lookahead set ANTLR's analysis gives for that alternative of the ATN state
    the method is in; (2) every adaptivePredict names the decision of that state; (3) every state number the method sets before a
    match / rule call is an ATN state of this rule with exactly that transition (state numbers drive sync(), expected-token sets and
    the positions of error reports)."""
    from ..gram.look import Look, HIT_PRED
    R = "C14.K1b"
    rep.rule(R, "decisions of the generated Python parser: LL(1) token tests equal the ATN's lookahead sets, adaptivePredict decision numbers and the state numbers set before "
                "each match / rule call are those of the ATN", floor=150)
    A = M.PA
    L = Look(A)
    consts = {k: v for k, v in M.ptab["consts"].items() if not k.startswith("RULE_")}
    consts["EOF"] = -1
    names = {v: k for k, v in consts.items()}
    rules = {n: i for i, n in enumerate(M.ptab["ruleNames"])}
    universe = [-1] + list(range(1, A.maxTokenType + 1))

    def fmt(ts):
        return "{%s}" % ", ".join(sorted(str(names.get(t, t)) for t in ts))

    def cond_set(e):
        return {t for t in universe if CondEval(consts, t).ev(e)}

    meths = {n.name: n for n in M.ptab["cls"].body if isinstance(n, ast.FunctionDef)}
    for r in M.G.prules:
        fn = meths.get(r.name)
        if fn is None:
            continue
        ridx = rules[r.name]
        where = "blackbirdParser." + r.name
        cur = [None]

        def state_obj(n, what):
            if n is None or n >= len(A.states) or A.states[n] is None:
                rep.bad(R, where, "%s happens in a state of the ATN" % what, "state %r" % n, key="%s|%s|nostate" % (r.name, what[:40]))
                return None
            st = A.states[n]
            if st.rule != ridx:
                rep.bad(R, where, "state %d set before %s belongs to rule %s" % (n, what, r.name), "it is a state of rule %s" % M.ptab["ruleNames"][st.rule], key="%s|%d|rule" % (r.name, n))
                return None
            return st

        def check_look(n, alt, e, what):
            st = state_obj(n, what)
            if st is None:
                return
            if alt >= len(st.trans):
                rep.bad(R, where, "state %d has an alternative %d" % (n, alt + 1), "it has %d" % len(st.trans), key="%s|%d|alts" % (r.name, n))
                return
            want = L.of_target(st.trans[alt].dst)
            if HIT_PRED in want:
                rep.bad(R, where, "state %d alternative %d is decided by token tests only if no predicate is in the way" % (n, alt + 1), key="%s|%d|%d|pred" % (r.name, n, alt))
                return
            got = cond_set(e)
            rep.check(got == want, R, where, "%s at state %d, alternative %d: tested tokens = LOOK = %s" % (what, n, alt + 1, fmt(want)),
                      "the code tests %s; missing %s, extra %s" % (fmt(got), fmt(want - got), fmt(got - want)), key="%s|%d|%d|look" % (r.name, n, alt))

        def call_of(s):
            v = s.value if isinstance(s, (ast.Expr, ast.Assign)) else None
            if isinstance(v, ast.Call) and isinstance(v.func, ast.Attribute) and u(v.func.value) == "self":
                return v
            return None

        def walk(stmts):
            for s in stmts:
                if isinstance(s, ast.Assign) and u(s.targets[0]) == "self.state" and isinstance(s.value, ast.Constant):
                    cur[0] = s.value.value
                    continue
                c = call_of(s)
                if c is not None:
                    f = c.func.attr
                    if f == "match" and len(c.args) == 1:
                        st = state_obj(cur[0], "match(%s)" % u(c.args[0]).split(".")[-1])
                        if st is not None:
                            t = CondEval(consts, None).ev(c.args[0])
                            ok = any(tr.type in ("ATOM", "RANGE", "SET") and t in L.label(tr) for tr in st.trans)
                            rep.check(ok, R, where, "state %d has a transition on %s" % (cur[0], names.get(t, t)), "transitions %s" % [(tr.type, tr.a1) for tr in st.trans],
                                      key="%s|%d|match" % (r.name, cur[0]))
                    elif f in rules:
                        st = state_obj(cur[0], "%s()" % f)
                        if st is not None:
                            prec = ast.literal_eval(c.args[0]) if c.args else 0
                            ok = any(tr.type == "RULE" and tr.a2 == rules[f] and tr.a3 == prec for tr in st.trans)
                            rep.check(ok, R, where, "state %d calls rule %s with precedence %d" % (cur[0], f, prec), "transitions %s" % [(tr.type, tr.a2, tr.a3) for tr in st.trans],
                                      key="%s|%d|call" % (r.name, cur[0]))
                if isinstance(s, ast.Assign) and "adaptivePredict" in u(s.value):
                    m = re.search(r"adaptivePredict\(self\._input,\s*(\d+),", u(s.value))
                    d = int(m.group(1)) if m else None
                    ok = d is not None and d < len(A.decisions)
                    if ok:
                        # the decision state is the state just set, or (loop re-evaluation) a state whose only way on is an epsilon edge into it
                        ds = A.decisions[d]
                        st = A.states[cur[0]] if cur[0] is not None and cur[0] < len(A.states) else None
                        ok = cur[0] == ds or (st is not None and len(st.trans) == 1 and st.trans[0].type == "EPSILON" and st.trans[0].dst == ds)
                    rep.check(ok, R, where, "adaptivePredict(%s) at state %s names the decision of that state" % (d, cur[0]),
                              "decision %s belongs to state %s" % (d, A.decisions[d] if d is not None and d < len(A.decisions) else "?"), key="%s|%s|decision" % (r.name, d))
                    continue
                if isinstance(s, ast.If):
                    t = u(s.test)
                    if t.startswith("token in ["):
                        n, i, curif = cur[0], 0, s
                        while True:
                            check_look(n, i, curif.test, "LL(1) switch")
                            walk(curif.body)
                            i += 1
                            if len(curif.orelse) == 1 and isinstance(curif.orelse[0], ast.If) and u(curif.orelse[0].test).startswith("token in ["):
                                curif = curif.orelse[0]
                                continue
                            walk(curif.orelse)
                            break
                        continue
                    if ("_la" in t) and "blackbirdParser." in t and not s.orelse and not t.startswith("not"):
                        check_look(cur[0], 0, s.test, "LL(1) optional block")
                        walk(s.body)
                        continue
                    if t.startswith("not") and s.body and isinstance(s.body[0], ast.Break):
                        # plus loop exit test: `if not (COND): break` - COND is the loop-back alternative of the state just set
                        check_look(cur[0], 0, s.test.operand if isinstance(s.test, ast.UnaryOp) else s.test, "LL(1) plus loop")
                        continue
                    walk(s.body)
                    walk(s.orelse)
                    continue
                if isinstance(s, ast.While):
                    t = " ".join(u(s.test).split())
                    if "_la" in t and "blackbirdParser." in t:
                        check_look(cur[0], 0, s.test, "LL(1) star loop")
                    walk(s.body)
                    continue
                if isinstance(s, ast.Try):
                    walk(s.body)
        walk(fn.body)
