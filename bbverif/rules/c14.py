"""C14 - shipped lexers and parsers recognise exactly the language of blackbird.g4.

Translation validation between four representations of one language: grammar text, serialised ATN
(4 copies per recogniser), generated Python code, generated C++ code.  DESIGN 4.1-4.3, 5/C14.
"""
import ast
import re

from ..report import Inconclusive
from ..gram import model as gm, nfa
from ..gram.g4 import Lit, Ref

TRUST = [
    "antlr4 4.9.2 Python/C++ runtimes interpret a deserialised ATN correctly (LexerATNSimulator: longest match, first rule wins ties; ParserATNSimulator: ALL(*))",
    "ANTLR's documented precedence-climbing rewrite of directly left-recursive rules (applied on the grammar side)",
    "CPython ast parser",
]


def quote_lit(text):
    return "'" + text.replace("\\", "\\\\").replace("'", "\\'") + "'"


def run(rep, tier, M=None):
    rep.trust(*TRUST)
    M = M or gm.Model(rep)
    G = M.G
    a1(rep, M)
    a2(rep, M)
    a3(rep, M)
    a4(rep, M)
    a5(rep, M)
    k3(rep, M)
    k2(rep, M)
    from . import c14_k1
    c14_k1.k1(rep, M)
    from . import common as _common
    _common.guarded(rep, "C14.K1b", c14_k1.k1b, rep, M)
    # the package's API is where the recognisers are observed: the caller's characters reach the generated lexer as they are, and a reported
    # syntax error always ends the parse (otherwise ANTLR's recovery makes the verdict "accept")
    from . import c10
    ix = _common.index(rep)
    _common.guarded(rep, "C10.2", c10.c10_2, rep, ix)
    _common.guarded(rep, "C10.3", c10.c10_3, rep, ix)
    rep.extra["programs"] = len(G.prules) + len(G.lrules)
    rep.extra["disagreements_checked"] = sum(1 for o in rep.obs if o.rule in ("C14.A3", "C14.A4"))
    return M


# ---------------------------------------------------------------- A1 identity of the ATN copies
def a1(rep, M):
    rep.rule("C14.A1", "all shipped copies of the parser ATN are the same integer sequence; same for the lexer ATN", floor=6)
    for what, copies in (("parser", M.parser_ints), ("lexer", M.lexer_ints)):
        ref = copies["py class"]
        for name, ints in copies.items():
            if name == "py class":
                continue
            if ints == ref:
                rep.ok("C14.A1", "%s ATN: %s" % (what, name), "identical to the ATN embedded in the Python class (%d integers)" % len(ref))
            else:
                i = next((k for k, (x, y) in enumerate(zip(ints, ref)) if x != y), min(len(ints), len(ref)))
                rep.bad("C14.A1", "%s ATN: %s" % (what, name), "%s ATN copy '%s' equals the copy in the Python class" % (what, name),
                        "first difference at integer %d (lengths %d vs %d)" % (i, len(ints), len(ref)))


# ---------------------------------------------------------------- A2 vocabularies
def cpp_vector(src, cls, name):
    m = re.search(r"std::vector<std::string>\s+%s::%s\s*=\s*\{(.*?)\};" % (cls, name), src, re.S)
    if not m:
        raise Inconclusive("C++ vector %s::%s not found" % (cls, name))
    out = []
    for s in re.findall(r'"((?:\\.|[^"\\])*)"', m.group(1)):
        out.append(s.encode().decode("unicode_escape"))
    return out


def cpp_enum(src, first):
    for m in re.finditer(r"enum\s*\{(.*?)\}", src, re.S):
        body = m.group(1)
        d = {k: int(v) for k, v in re.findall(r"(\w+)\s*=\s*(\d+)", body)}
        if first in d:
            return d
    raise Inconclusive("C++ enum containing %s not found" % first)


def a2(rep, M):
    G = M.G
    rep.rule("C14.A2", "token and rule vocabularies of every artefact agree with each other and with the grammar's token table", floor=20)
    toks = [r.name for r in G.tokens]
    want_sym = ["<INVALID>"] + toks
    want_lit = ["<INVALID>"] + [quote_lit(G.literal_of(t)) if G.literal_of(t) is not None else "<INVALID>" for t in toks]
    want_rules = [r.name for r in G.prules]
    want_lrules = [r.name for r in G.lrules]
    C = "C14.A2"

    def eq(site, text, got, want):
        if got == want:
            rep.ok(C, site, text)
        else:
            d = next((i for i, (x, y) in enumerate(zip(got, want)) if x != y), min(len(got), len(want)))
            rep.bad(C, site, text, "first difference at index %d: %r vs grammar %r" % (d, got[d:d + 1], want[d:d + 1]))

    p, l = M.ptab, M.ltab
    eq("blackbirdParser.symbolicNames", "Python parser symbolicNames = token rules of the grammar in file order", p.get("symbolicNames"), want_sym)
    eq("blackbirdParser.literalNames", "Python parser literalNames = single-literal token rules of the grammar", p.get("literalNames"), trim_invalid(want_lit))
    eq("blackbirdParser.ruleNames", "Python parser ruleNames = parser rules of the grammar in file order", p.get("ruleNames"), want_rules)
    eq("blackbirdLexer.symbolicNames", "Python lexer symbolicNames = token rules of the grammar in file order", l.get("symbolicNames"), want_sym)
    eq("blackbirdLexer.literalNames", "Python lexer literalNames = the literal token rules in order (compact form)", l.get("literalNames"),
       ["<INVALID>"] + [x for x in want_lit[1:] if x != "<INVALID>"])
    eq("blackbirdLexer.ruleNames", "Python lexer ruleNames = lexer rules (fragments included) in file order", l.get("ruleNames"), want_lrules)
    eq("blackbirdLexer.modeNames", "one lexer mode", l.get("modeNames"), ["DEFAULT_MODE"])
    # token constants / rule constants
    for cls, tab in (("blackbirdParser", p), ("blackbirdLexer", l)):
        got = {k: v for k, v in tab["consts"].items() if not k.startswith("RULE_")}
        want = {t: G.ttype[t] for t in toks}
        if cls == "blackbirdLexer":
            want = dict(want)
        extra = {k: v for k, v in got.items() if k not in want}
        miss = {k: v for k, v in want.items() if got.get(k) != v}
        rep.check(not extra and not miss, C, cls + " token constants", "%s token constants number the grammar's token rules 1..%d in file order" % (cls, len(toks)),
                  "wrong/missing %r unexpected %r" % (miss, extra))
    got = {k[5:]: v for k, v in p["consts"].items() if k.startswith("RULE_")}
    rep.check(got == G.pidx, C, "blackbirdParser RULE_ constants", "RULE_x constants equal the rule index in the grammar", "got %r" % {k: v for k, v in got.items() if G.pidx.get(k) != v})
    # C++
    cp, cl = M.src["cpp_parser"], M.src["cpp_lexer"]
    eq("cpp blackbirdParser::_ruleNames", "C++ parser rule names", cpp_vector(cp, "blackbirdParser", "_ruleNames"), want_rules)
    eq("cpp blackbirdParser::_symbolicNames", "C++ parser symbolic names", cpp_vector(cp, "blackbirdParser", "_symbolicNames"), [""] + toks)
    eq("cpp blackbirdParser::_literalNames", "C++ parser literal names", cpp_vector(cp, "blackbirdParser", "_literalNames"),
       trim([""] + [x if x != "<INVALID>" else "" for x in want_lit[1:]]))
    eq("cpp blackbirdLexer::_ruleNames", "C++ lexer rule names", [x for x in cpp_vector(cl, "blackbirdLexer", "_ruleNames")], want_lrules)
    eq("cpp blackbirdLexer::_symbolicNames", "C++ lexer symbolic names", cpp_vector(cl, "blackbirdLexer", "_symbolicNames"), [""] + toks)
    eq("cpp blackbirdLexer::_literalNames", "C++ lexer literal names", cpp_vector(cl, "blackbirdLexer", "_literalNames"),
       trim([""] + [x if x != "<INVALID>" else "" for x in want_lit[1:]]))
    eq("cpp blackbirdLexer::_modeNames", "C++ lexer: one mode", cpp_vector(cl, "blackbirdLexer", "_modeNames"), ["DEFAULT_MODE"])
    for hdr, key in (("cpp_parser_h", "blackbirdParser.h"), ("cpp_lexer_h", "blackbirdLexer.h")):
        e = cpp_enum(M.src[hdr], "PLUS")
        rep.check(e == {t: G.ttype[t] for t in toks}, C, key + " token enum", "C++ token enum numbers the grammar's token rules in file order",
                  "differs at %r" % sorted(k for k in set(e) | set(toks) if e.get(k) != G.ttype.get(k)))
    e = cpp_enum(M.src["cpp_parser_h"], "RuleStart")
    want = {"Rule" + n[0].upper() + n[1:]: i for n, i in G.pidx.items()}
    rep.check(e == want, C, "blackbirdParser.h rule enum", "C++ rule enum equals the grammar's rule order", "differs at %r" % sorted(k for k in set(e) | set(want) if e.get(k) != want.get(k)))
    # .tokens files
    want_tok = {t: G.ttype[t] for t in toks}
    for t in toks:
        if G.literal_of(t) is not None:
            want_tok[quote_lit(G.literal_of(t))] = G.ttype[t]
    for k in ("py_tokens", "py_lexer_tokens", "cpp_tokens", "cpp_lexer_tokens"):
        got = gm.parse_tokens_file(M.src[k])
        rep.check(got == want_tok, C, gm.FILES[k], ".tokens file maps every token name and literal to the grammar's token type",
                  "differs at %r" % sorted(x for x in set(got) | set(want_tok) if got.get(x) != want_tok.get(x))[:6])
    # .interp headers
    from ..gram import atn as atnmod
    for k, lexer in (("py_interp", False), ("cpp_interp", False), ("py_lexer_interp", True), ("cpp_lexer_interp", True)):
        sec = atnmod.parse_interp(M.src[k])
        lits = [None if x == "null" else x for x in sec.get("token literal names", [])]
        syms = [None if x == "null" else x for x in sec.get("token symbolic names", [])]
        eq(gm.FILES[k] + " literal names", ".interp token literal names", lits, trimnone([None] + [x if x != "<INVALID>" else None for x in want_lit[1:]], len(lits)))
        eq(gm.FILES[k] + " symbolic names", ".interp token symbolic names", syms, [None] + toks)
        eq(gm.FILES[k] + " rule names", ".interp rule names", sec.get("rule names", []), want_lrules if lexer else want_rules)
        if lexer:
            eq(gm.FILES[k] + " mode names", ".interp mode names", sec.get("mode names", []), ["DEFAULT_MODE"])


def trim_invalid(lst):
    lst = list(lst)
    while lst and lst[-1] == "<INVALID>":
        lst.pop()
    return lst


def trim(lst):
    lst = list(lst)
    while lst and lst[-1] == "":
        lst.pop()
    return lst


def trimnone(lst, n):
    lst = list(lst)
    while len(lst) > n and lst[-1] is None:
        lst.pop()
    return lst


# ---------------------------------------------------------------- A3 parser language per rule
def fmt_word(G, M, w, lexer=False):
    out = []
    names = {v: k for k, v in G.ttype.items()}
    for y in w:
        if y[0] == "T":
            out.append(names.get(y[1], "T%d" % y[1]))
        elif y[0] == "R":
            if lexer:
                out.append("<%s>" % G.lrules[y[1]].name if y[1] < len(G.lrules) else "<rule %d>" % y[1])
            else:
                nm = G.prules[y[1]].name if y[1] < len(G.prules) else "rule%d" % y[1]
                out.append("<%s%s>" % (nm, "[%d]" % y[2] if y[2] else ""))
        elif y[0] == "P":
            out.append("{prec>=%d}?" % y[1])
        else:
            out.append(repr(y))
    return " ".join(out)


def a3(rep, M):
    G, A = M.G, M.PA
    rep.rule("C14.A3", "for every parser rule, the ATN sub-machine and the grammar rule body (after the left-recursion rewrite) accept the same language over tokens and rule references",
             floor=len(G.prules))
    rep.check(A.grammarType == 1, "C14.A3", "parser ATN header", "ATN grammar type is PARSER")
    rep.check(A.maxTokenType == len(G.tokens), "C14.A3", "parser ATN header", "ATN maxTokenType equals the number of token rules", "%d vs %d" % (A.maxTokenType, len(G.tokens)))
    rep.check(len(A.ruleStart) == len(G.prules), "C14.A3", "parser ATN rule table", "ATN has one sub-machine per grammar rule", "%d vs %d" % (len(A.ruleStart), len(G.prules)))
    M.prec_table = None
    for r in G.prules:
        i = G.pidx[r.name]
        if i >= len(A.ruleStart):
            rep.bad("C14.A3", "rule " + r.name, "rule has an ATN sub-machine")
            continue
        g, table = gm.grammar_rule_nfa(G, r)
        if table:
            M.prec_table = table
        a = gm.atn_rule_nfa(A, i)
        res = nfa.equivalent(g, a)
        if res is None:
            rep.ok("C14.A3", "rule " + r.name, "L(ATN sub-machine %d) = L(grammar rule %s)" % (i, r.name))
        else:
            w, side = res
            rep.bad("C14.A3", "rule " + r.name, "L(ATN sub-machine %d) = L(grammar rule %s)" % (i, r.name),
                    "shortest distinguishing word: [%s] accepted only by the %s" % (fmt_word(G, M, w), "grammar" if side == "left" else "shipped ATN"))
    # start rule ends in EOF (C10.1 uses this too)
    g, _ = gm.grammar_rule_nfa(G, G.prules[0])
    ends_eof = all(y == ("T", -1) for s in g.edges for (y, b) in g.edges[s] if g.closure({b}) & g.accept)
    rep.check(G.prules[0].name == "start" and ends_eof, "C14.A3", "rule start", "rule 0 is 'start' and every sentence ends with EOF")


# ---------------------------------------------------------------- A4 lexer language per rule
def a4(rep, M):
    G, A = M.G, M.LA
    rep.rule("C14.A4", "for every lexer rule, the ATN sub-machine and the grammar rule accept the same character language; rule order, token types and actions agree",
             floor=len(G.lrules))
    rep.check(A.grammarType == 0, "C14.A4", "lexer ATN header", "ATN grammar type is LEXER")
    rep.check(len(A.ruleStart) == len(G.lrules), "C14.A4", "lexer ATN rule table", "ATN has one sub-machine per lexer rule", "%d vs %d" % (len(A.ruleStart), len(G.lrules)))
    for r in G.lrules:
        i = G.lidx[r.name]
        if i >= len(A.ruleStart):
            rep.bad("C14.A4", "lexer rule " + r.name, "rule has an ATN sub-machine")
            continue
        g = gm.lexer_rule_nfa(G, r)
        a = gm.atn_rule_nfa(A, i, lexer=True)
        ats = gm.atomise(g, a)
        res = nfa.equivalent(g, a)
        if res is None:
            rep.ok("C14.A4", "lexer rule " + r.name, "L(ATN sub-machine %d) = L(lexer rule %s)" % (i, r.name))
        else:
            w, side = res
            word = " ".join(("U+%04X..U+%04X" % ats[y[1]] if y[0] == "C" else "<%s>" % G.lrules[y[1]].name) for y in w)
            rep.bad("C14.A4", "lexer rule " + r.name, "L(ATN sub-machine %d) = L(lexer rule %s)" % (i, r.name),
                    "shortest distinguishing word: [%s] accepted only by the %s" % (word, "grammar" if side == "left" else "shipped ATN"))
    want_tt = [0 if r.fragment else G.ttype[r.name] for r in G.lrules]
    rep.check(A.ruleTokenType == want_tt, "C14.A4", "lexer ATN ruleToTokenType", "rule i emits the token type of the i-th lexer rule (fragments: none); order = tie-break priority",
              "got %r" % [(G.lrules[i].name, x) for i, x in enumerate(A.ruleTokenType) if i < len(want_tt) and x != want_tt[i]])
    rep.check(A.modes and len(A.modes) == 1, "C14.A4", "lexer ATN modes", "exactly one lexer mode")
    # actions: skip (type 6) on exactly the rules marked -> skip
    act_rules = {}
    for s in A.states:
        if s:
            for t in s.trans:
                if t.type == "ACTION":
                    act_rules.setdefault(t.a1, []).append(t.a2)
    skipping = sorted(G.lrules[r].name for r, idxs in act_rules.items() if r < len(G.lrules) for ix in idxs if ix < len(A.lexerActions) and A.lexerActions[ix][0] == 6)
    others = [(r, ix) for r, idxs in act_rules.items() for ix in idxs if ix >= len(A.lexerActions) or A.lexerActions[ix][0] != 6]
    cmds = {r.name: r.commands for r in G.lrules if r.commands}
    rep.check(skipping == sorted(G.skip) and not others and all(c == ["skip"] for c in cmds.values()), "C14.A4", "lexer actions",
              "the only lexer actions are 'skip' on exactly the rules the grammar marks '-> skip'", "ATN skips %r, grammar %r, other actions %r" % (skipping, cmds, others))
    # token-mode start: every non-fragment rule is reachable from the mode start, no fragment is
    ms = A.states[A.modes[0]] if A.modes else None
    if ms:
        starts = [A.states[t.dst].rule for t in ms.trans]
        want = [i for i, r in enumerate(G.lrules) if not r.fragment]
        rep.check(sorted(starts) == want, "C14.A4", "lexer mode start", "the mode start state offers exactly the non-fragment rules", "got %r" % sorted(starts))
        first = next((k for k, (x, y) in enumerate(zip(starts, want)) if x != y), None)
        rep.check(starts == want, "C14.A4", "lexer mode start order", "the mode start state offers the token rules in grammar order (the simulator resolves equal-length matches in favour of the earlier alternative)",
                  "position %s: ATN offers %s where the grammar has %s" % (first, G.lrules[starts[first]].name if first is not None and starts[first] < len(G.lrules) else "?",
                                                                       G.lrules[want[first]].name if first is not None else "?"), key="mode start order")


# ---------------------------------------------------------------- A5 wiring of the generated Python classes
ALLOWED_PARSER_MEMBERS = {"grammarFileName", "atn", "decisionsToDFA", "sharedContextCache", "literalNames", "symbolicNames", "ruleNames", "EOF",
                          "__init__", "sempred"}
ALLOWED_LEXER_MEMBERS = {"atn", "decisionsToDFA", "channelNames", "modeNames", "literalNames", "symbolicNames", "ruleNames", "grammarFileName", "__init__", "T__0"}


def a5(rep, M):
    G = M.G
    rep.rule("C14.A5", "the generated Python classes interpret exactly the embedded ATN with the stock simulators and define nothing beyond the 4.9.2 templates", floor=8)
    for key, clsname, base, sim in (("py_parser", "blackbirdParser", "Parser", "ParserATNSimulator"), ("py_lexer", "blackbirdLexer", "Lexer", "LexerATNSimulator")):
        tab = M.ptab if key == "py_parser" else M.ltab
        cls = tab["cls"]
        site = clsname
        bases = [ast.unparse(b) for b in cls.bases]
        rep.check(bases == [base], "C14.A5", site, "class %s derives directly from antlr4 %s" % (clsname, base), "bases %r" % bases)
        members = {}
        for n in cls.body:
            if isinstance(n, ast.Assign):
                for t in n.targets:
                    if isinstance(t, ast.Name):
                        members[t.id] = n
            elif isinstance(n, (ast.FunctionDef, ast.ClassDef)):
                members[n.name] = n
        atn_ok = "atn" in members and ast.unparse(members["atn"].value) == "ATNDeserializer().deserialize(serializedATN())"
        rep.check(atn_ok, "C14.A5", site + ".atn", "atn = ATNDeserializer().deserialize(serializedATN())")
        init = members.get("__init__")
        ok = False
        if isinstance(init, ast.FunctionDef):
            for st in ast.walk(init):
                if isinstance(st, ast.Assign) and ast.unparse(st.targets[0]) == "self._interp":
                    v = st.value
                    ok = isinstance(v, ast.Call) and ast.unparse(v.func) == sim and len(v.args) >= 2 and ast.unparse(v.args[0]) == "self" and ast.unparse(v.args[1]) == "self.atn"
        rep.check(ok, "C14.A5", site + ".__init__", "_interp is the stock %s over self.atn" % sim)
        # members beyond the templates
        toks = set(G.ttype) | {"RULE_" + r.name for r in G.prules}
        rules = {r.name for r in G.prules}
        labels = {l for r in G.prules for l in G.labels(r.name)}
        extra = []
        for name, node in members.items():
            if key == "py_parser":
                if name in ALLOWED_PARSER_MEMBERS or name in toks or name in rules:
                    continue
                if name.endswith("Context") and (name[:-7][0].lower() + name[:-7][1:] in rules or name[:-7] in labels):
                    continue
                if name.endswith("_sempred"):
                    continue
            else:
                if name in ALLOWED_LEXER_MEMBERS or name in toks:
                    continue
            extra.append(name)
        rep.check(not extra, "C14.A5", site + " members", "class defines no member beyond those the ANTLR 4.9.2 Python templates emit (no overridden nextToken/emit/match/...)",
                  "unexpected members %r" % extra)
    # module-level functions: only serializedATN
    for key in ("py_parser", "py_lexer"):
        tree = (M.ptab if key == "py_parser" else M.ltab)["tree"]
        fns = [n.name for n in tree.body if isinstance(n, (ast.FunctionDef,))]
        clss = [n.name for n in tree.body if isinstance(n, ast.ClassDef)]
        rep.check(fns == ["serializedATN"] and len(clss) == 1, "C14.A5", gm.FILES[key] + " module", "module defines only serializedATN() and the recogniser class", "functions %r classes %r" % (fns, clss))
    sempred(rep, M)


def sempred(rep, M):
    """sempred table: predicate i of rule expression -> precpred(_, p_i) with the p_i of the ATN"""
    G, A = M.G, M.PA
    cls = M.ptab["cls"]
    m = {n.name: n for n in cls.body if isinstance(n, ast.FunctionDef)}
    lr = [r for r in G.prules if gm.is_left_recursive(r)]
    # ATN precedence predicates in order of appearance (pred index = order of PRECEDENCE transitions is not serialised; the generated
    # code numbers predicates in alternative order).  We compare the multiset / sequence of precedences.
    site = "blackbirdParser.sempred"
    if not lr:
        rep.check("sempred" not in m, "C14.A5", site, "no sempred needed (no left-recursive rule)")
        return
    if "sempred" not in m:
        rep.bad("C14.A5", site, "sempred dispatches precedence predicates of the left-recursive rule(s)")
        return
    for r in lr:
        fn = m.get(r.name + "_sempred")
        if fn is None:
            rep.bad("C14.A5", site, "%s_sempred exists" % r.name)
            continue
        got = {}
        for st in ast.walk(fn):
            if isinstance(st, ast.If) and isinstance(st.test, ast.Compare) and ast.unparse(st.test.left) == "predIndex":
                idx = ast.literal_eval(st.test.comparators[0])
                ret = st.body[0]
                mm = re.fullmatch(r"self\.precpred\(self\._ctx, (\d+)\)", ast.unparse(ret.value)) if isinstance(ret, ast.Return) else None
                got[idx] = int(mm.group(1)) if mm else None
        _, suff, table = gm.left_recursive_rewrite(r)
        want = {i: prec for i, (kind, prec, items, nxt) in enumerate(suff)}
        rep.check(got == want, "C14.A5", "blackbirdParser.%s_sempred" % r.name, "predicate i is precpred(_ctx, p_i) with the precedence of the i-th operator alternative of the grammar",
                  "got %r want %r" % (got, want))
        # dispatch
        sp = ast.unparse(m["sempred"])
        rep.check("self._predicates[%d] = self.%s_sempred" % (G.pidx[r.name], r.name) in sp, "C14.A5", site, "sempred dispatches rule index %d to %s_sempred" % (G.pidx[r.name], r.name))


# ---------------------------------------------------------------- K3 generated listener and context dispatch
def k3(rep, M):
    G = M.G
    rep.rule("C14.K3", "the generated listener declares enter/exit for every rule and labelled alternative, and every context class dispatches to the like-named method", floor=40)
    t = ast.parse(M.src["py_listener"])
    cls = [n for n in t.body if isinstance(n, ast.ClassDef) and n.name == "blackbirdListener"]
    if not cls:
        raise Inconclusive("class blackbirdListener not found in generated listener")
    have = {n.name for n in cls[0].body if isinstance(n, ast.FunctionDef)}
    M.listener_methods = have
    names = []
    for r in G.prules:
        labs = G.labels(r.name)
        if labs:
            if len(labs) != len(r.body.alts):
                raise Inconclusive("rule %s mixes labelled and unlabelled alternatives" % r.name)
            names += labs
        else:
            names.append(r.name)
    want = set()
    for n in names:
        cap = n[0].upper() + n[1:]
        want |= {"enter" + cap, "exit" + cap}
    for w in sorted(want):
        rep.check(w in have, "C14.K3", "blackbirdListener." + w, "generated listener declares %s" % w)
    extra = sorted(x for x in have - want if x.startswith(("enter", "exit")))
    rep.check(not extra, "C14.K3", "blackbirdListener", "generated listener declares no handler for a non-existent rule", "extra %r" % extra)
    # context classes dispatch
    pcls = M.ptab["cls"]
    ctxs = {n.name: n for n in pcls.body if isinstance(n, ast.ClassDef)}
    M.ctx_classes = ctxs
    for n in names:
        cap = n[0].upper() + n[1:]
        c = ctxs.get(cap + "Context")
        if c is None:
            rep.bad("C14.K3", "blackbirdParser.%sContext" % cap, "context class exists")
            continue
        meths = {f.name: f for f in c.body if isinstance(f, ast.FunctionDef)}
        ok = True
        for kind in ("enter", "exit"):
            f = meths.get(kind + "Rule")
            body = ast.unparse(f) if f else ""
            ok = ok and ("listener.%s%s(self)" % (kind, cap)) in body and body.count("listener.") == 1
        rep.check(ok, "C14.K3", "blackbirdParser.%sContext" % cap, "enterRule/exitRule call listener.enter%s/exit%s(self) and nothing else" % (cap, cap))


# ---------------------------------------------------------------- K2 C++ parser event sequence equals the Python one
EV_PY = re.compile(r"self\.state = (\d+)|self\.match\(blackbirdParser\.(\w+)\)|adaptivePredict\(self\._input,\s*(\d+),|self\.precpred\(self\._ctx, (\d+)\)|self\.(\w+)\((\d*)\)|blackbirdParser\.([A-Z][A-Z_0-9]*)\b|\bla_\s*==\s*(\d+)|\b_alt\s*([!=]=)\s*(\d+)|\b(and|or|not)\b")
EV_CPP = re.compile(r"setState\((\d+)\)|match\(blackbirdParser::(\w+)\)|adaptivePredict\(_input, (\d+),|precpred\(_ctx, (\d+)\)|(?<![\w:>.])(\w+)\((\d*)\);|blackbirdParser::([A-Z][A-Z_0-9]*)\b|\bcase (\d+):|\balt ([!=]=) (\d+)|(&&|\|\||!(?=\())")


def _events(rx, text, rule_names, toks):
    ev = []
    for m in rx.finditer(text):
        if m.group(1): ev.append(("state", int(m.group(1))))
        elif m.group(2): ev.append(("match", m.group(2)))
        elif m.group(3): ev.append(("predict", int(m.group(3))))
        elif m.group(4): ev.append(("precpred", int(m.group(4))))
        elif m.group(5):
            if m.group(5) in rule_names: ev.append(("rule", m.group(5), m.group(6) or ""))
        elif m.group(7):
            if m.group(7) in toks: ev.append(("tok", m.group(7)))
        elif m.group(8): ev.append(("alt", int(m.group(8))))
        elif m.group(9) == "==": ev.append(("alt", int(m.group(10))))
    return ev


def py_events(M):
    src = M.src["py_parser"]
    lines = src.splitlines()
    rule_names = set(M.ptab.get("ruleNames") or [])
    toks = set(M.G.ttype)
    out = {}
    for n in M.ptab["cls"].body:
        if isinstance(n, ast.FunctionDef) and n.name in rule_names:
            text = "\n".join(lines[n.lineno - 1: n.end_lineno])
            out[n.name] = _events(EV_PY, text, rule_names, toks)
    return out


def cpp_events(M):
    cpp = M.src["cpp_parser"]
    rule_names = set(M.ptab.get("ruleNames") or [])
    toks = set(M.G.ttype)
    out = {}
    for m in re.finditer(r"\nblackbirdParser::(\w+)Context\* blackbirdParser::(\w+)\((int precedence)?\) \{", cpp):
        name = m.group(2)
        if name not in rule_names:
            continue
        start = m.end()
        end = cpp.find("\n}\n", start)
        body = cpp[start: end if end >= 0 else len(cpp)]
        ev = _events(EV_CPP, body, rule_names, toks)
        if name in out:
            # the left-recursive rule has a one-line wrapper 'expression()' that returns expression(0); keep the real body
            if len(ev) <= len(out[name]):
                continue
        out[name] = ev
    return out


def k2(rep, M):
    rep.rule("C14.K2", "per rule function, the C++ parser's event sequence (setState / match / rule call / adaptivePredict / precpred) equals the Python parser's",
             floor=len(M.G.prules))
    pe, ce = py_events(M), cpp_events(M)
    for r in M.G.prules:
        a, b = pe.get(r.name), ce.get(r.name)
        if a is None or b is None:
            rep.bad("C14.K2", "rule function " + r.name, "rule function exists in both generated parsers", "python %s, c++ %s" % (a is not None, b is not None))
            continue
        if a == b and len(a) >= 1:
            rep.ok("C14.K2", "rule function " + r.name, "C++ and Python event sequences are identical (%d events)" % len(a))
        else:
            i = next((k for k, (x, y) in enumerate(zip(a, b)) if x != y), min(len(a), len(b)))
            rep.bad("C14.K2", "rule function " + r.name, "C++ and Python event sequences are identical",
                    "first difference at event %d: python %r, c++ %r" % (i, a[i:i + 1], b[i:i + 1]))
    M.py_events = pe
