"""C16 - the dependency graph is an order-respecting DAG of the operations (structural clauses; DESIGN 5/C16)."""
import ast

from ..report import Inconclusive
from ..py.eff import nonfresh
from ..py.index import u, walk_shallow
from . import common
from .c19 import get_ord

FN = "utils.to_DiGraph"


def run(rep, tier):
    rep.trust(*common.PY_TRUST)
    rep.trust("networkx DiGraph.add_node/add_edge add exactly the given node/edge")
    ix = common.index(rep)
    f = ix.func(FN)
    fn = f.node
    c16_ord(rep, ix, f)
    from .c19 import pairing
    common.guarded(rep, "C08.2", pairing, rep, get_ord(rep), ix, "C08.2")     # the register wires are read from .regrefs: it must list every register of the expression
    c16_4(rep, ix, f)
    shape = common.guarded(rep, "C16.1", recognise, rep, ix, f)
    if shape is not None:
        common.guarded(rep, "C16.1", c16_1, rep, ix, f, shape)
        common.guarded(rep, "C16.2", c16_2, rep, ix, f, shape)
        common.guarded(rep, "C16.3", c16_3, rep, ix, f, shape)


def recognise(rep, ix, f):
    fn = f.node
    prog = f.params[0]
    oploops = [n for n in fn.body if isinstance(n, ast.For) and isinstance(n.iter, ast.Call) and u(n.iter.func) == "enumerate" and len(n.iter.args) == 1
               and u(n.iter.args[0]) in ("%s.operations" % prog, "%s._operations" % prog) and isinstance(n.target, ast.Tuple) and len(n.target.elts) == 2]
    if len(oploops) != 1:
        raise Inconclusive("to_DiGraph: operation loop `for idx, op in enumerate(program.operations)` not recognised")
    lp = oploops[0]
    idx, op = u(lp.target.elts[0]), u(lp.target.elts[1])
    return dict(loop=lp, idx=idx, op=op, prog=prog)


def c16_1(rep, ix, f, sh):
    R = "C16.1"
    rep.rule(R, "the dependency set of an operation is its modes plus the registers of every RegRefTransform in positional and keyword arguments, collected in a set (each wire once)", floor=4)
    lp, op = sh["loop"], sh["op"]
    # the wire loop: for q in D: ... grid[q].append(...)
    wl = [n for n in lp.body if isinstance(n, ast.For) and any(isinstance(x, ast.Call) and isinstance(x.func, ast.Attribute) and x.func.attr == "append" for x in ast.walk(n))]
    if len(wl) != 1 or not isinstance(wl[0].iter, ast.Name):
        raise Inconclusive("to_DiGraph: wire loop `for q in dependencies` not recognised")
    D = wl[0].iter.id
    sh["wire_loop"], sh["deps"] = wl[0], D
    inits = [n for n in walk_shallow(lp) if isinstance(n, ast.Assign) and any(isinstance(t, ast.Name) and t.id == D for t in n.targets)]
    ok_init = len(inits) == 1 and isinstance(inits[0].value, ast.Call) and u(inits[0].value.func) in ("set", "frozenset") and u(inits[0].value.args[0]) in ("%s['modes']" % op, '%s["modes"]' % op)
    rep.check(ok_init, R, ix.site(f, inits[0]) if inits else ix.site(f), "the dependency collection starts as set(op['modes'])", "got `%s`" % (u(inits[0]) if inits else None), key="init")
    # every other write to D is a set union with set(<x>.regrefs) under isinstance(<x>, RegRefTransform)
    writes = []
    for n in walk_shallow(lp):
        if isinstance(n, ast.AugAssign) and isinstance(n.target, ast.Name) and n.target.id == D:
            writes.append(n)
        if isinstance(n, ast.Call) and isinstance(n.func, ast.Attribute) and u(n.func.value) == D and n.func.attr in ("update", "add", "extend", "append", "union"):
            writes.append(n)
    slots = {"args": False, "kwargs": False}
    for w in writes:
        if isinstance(w, ast.AugAssign):
            okw = isinstance(w.op, ast.BitOr) and isinstance(w.value, ast.Call) and u(w.value.func) == "set" and u(w.value.args[0]).endswith(".regrefs")
            src = u(w.value.args[0])[:-8] if okw else None
        else:
            okw = w.func.attr in ("update",) and w.args and u(w.args[0]).endswith(".regrefs")
            src = u(w.args[0])[:-8] if okw else None
        rep.check(okw, R, ix.site(f, w), "`%s` adds the registers of a transform to the set by union" % " ".join(u(w).split())[:60], key="write|" + " ".join(u(w).split())[:60])
        if okw:
            # which slot: the enclosing loop iterates args or kwargs; the guard tests isinstance(src, RegRefTransform)
            for l in walk_shallow(lp):
                if isinstance(l, ast.For) and any(x is w for x in ast.walk(l)):
                    it = u(l.iter)
                    guard = any(isinstance(g, ast.If) and u(g.test) == "isinstance(%s, RegRefTransform)" % src and any(x is w for x in ast.walk(g)) for g in ast.walk(l))
                    tv = [x.id for x in ast.walk(l.target) if isinstance(x, ast.Name)]
                    if guard and src in tv:
                        if "kwargs" in it:
                            slots["kwargs"] = True
                        elif "args" in it:
                            slots["args"] = True
    rep.check(slots["args"], R, ix.site(f), "registers of transforms in positional arguments are added", key="slot args")
    rep.check(slots["kwargs"], R, ix.site(f), "registers of transforms in keyword arguments are added", key="slot kwargs")


def c16_2(rep, ix, f, sh):
    R = "C16.2"
    if "wire_loop" not in sh:
        raise Inconclusive("to_DiGraph: wire loop not recognised")
    fn, lp, idx, wl = f.node, sh["loop"], sh["idx"], sh["wire_loop"]
    q = u(wl.target)
    apps = [x for x in ast.walk(wl) if isinstance(x, ast.Call) and isinstance(x.func, ast.Attribute) and x.func.attr == "append"]
    ok = False
    grid = None
    if len(apps) == 1 and apps[0].args and isinstance(apps[0].args[0], (ast.List, ast.Tuple)) and len(apps[0].args[0].elts) == 2 and u(apps[0].args[0].elts[0]) == idx:
        recv = apps[0].func.value
        if isinstance(recv, ast.Subscript) and u(recv.slice) == q:
            grid = u(recv.value)
            ok = True
        elif isinstance(recv, ast.Call) and isinstance(recv.func, ast.Attribute) and recv.func.attr == "setdefault" and len(recv.args) == 2 and u(recv.args[0]) == q \
                and isinstance(recv.args[1], ast.List) and not recv.args[1].elts:
            grid = u(recv.func.value)
            ok = True
    rep.check(ok, R, ix.site(f, apps[0]) if apps else ix.site(f), "each wire list receives [idx, command] by append, idx being the operation's position", key="append")
    if not ok:
        return
    sh["grid"] = grid
    sh["cmd"] = u(apps[0].args[0].elts[1])
    bad = []
    for n in ast.walk(fn):
        if isinstance(n, ast.Call) and isinstance(n.func, ast.Attribute) and n.func.attr in ("insert", "sort", "reverse", "extend", "pop", "remove") and grid in u(n.func.value):
            bad.append(n)
        if isinstance(n, ast.Assign) and any(isinstance(t, ast.Subscript) and u(t.value) == grid for t in n.targets):
            if not (isinstance(n.value, ast.List) and not n.value.elts):
                bad.append(n)
    rep.check(not bad, R, ix.site(f, bad[0]) if bad else ix.site(f), "wire lists are created empty and never reordered, inserted into or overwritten", "found `%s`" % (u(bad[0]) if bad else ""), key="wire mutation")
    # edges
    edges = [x for x in ast.walk(fn) if isinstance(x, ast.Call) and isinstance(x.func, ast.Attribute) and x.func.attr in ("add_edge", "add_edges_from", "add_weighted_edges_from")]
    gl = [n for n in fn.body if isinstance(n, ast.For) and u(n.iter) in ("%s.items()" % grid, "%s.values()" % grid)]
    if len(gl) != 1 or len(edges) != 1 or edges[0].func.attr != "add_edge" or len(edges[0].args) != 2:
        raise Inconclusive("to_DiGraph: edge construction not recognised (%d add_edge calls)" % len(edges))
    cm = u(gl[0].target.elts[1]) if isinstance(gl[0].target, ast.Tuple) else u(gl[0].target)
    e = edges[0]
    il = [n for n in ast.walk(gl[0]) if isinstance(n, ast.For) and n is not gl[0] and any(x is e for x in ast.walk(n))]
    il = [n for n in il if not any(m is not n and any(x is m for x in ast.walk(n)) for m in il)]
    if len(il) != 1:
        raise Inconclusive("to_DiGraph: loop around add_edge not recognised")
    l = il[0]
    a0, a1 = " ".join(u(e.args[0]).split()), " ".join(u(e.args[1]).split())
    verdict = None
    if isinstance(l.target, ast.Name) and " ".join(u(l.iter).split()) == "range(1, len(%s))" % cm:
        i = l.target.id
        fwd = (a0, a1) == ("%s[%s - 1][0]" % (cm, i), "%s[%s][0]" % (cm, i))
        rev = (a1, a0) == ("%s[%s - 1][0]" % (cm, i), "%s[%s][0]" % (cm, i))
        verdict = True if fwd else (False if rev else None)
    elif " ".join(u(l.iter).split()) in ("zip(%s, %s[1:])" % (cm, cm), "zip(%s[:-1], %s[1:])" % (cm, cm)) and isinstance(l.target, ast.Tuple) and len(l.target.elts) == 2:
        def index_of(t):
            if isinstance(t, ast.Tuple) and t.elts:
                return u(t.elts[0])
            return u(t) + "[0]"
        p, c = index_of(l.target.elts[0]), index_of(l.target.elts[1])
        fwd = (a0, a1) == (p, c)
        rev = (a0, a1) == (c, p)
        verdict = True if fwd else (False if rev else None)
    if verdict is None:
        raise Inconclusive("to_DiGraph: add_edge arguments `%s` in loop `%s` outside the idiom set" % (u(e), u(l.iter)))
    rep.check(verdict, R, ix.site(f, e), "every edge joins the index components of two consecutive entries of one wire list, earlier -> later (hence forward, acyclic, per-wire program order)",
              "got `%s` in loop `for %s in %s`" % (u(e), u(l.target), u(l.iter)), key="edge")


def c16_ord(rep, ix, f):
    R = "C16.2"
    rep.rule(R, "edges point forward: wire lists are only appended to, with items whose first component is the enumerate index of the operation loop, and every add_edge takes its ends from "
                "positions i-1 and i of one wire list; no unordered collection decides an order", floor=4)
    O = get_ord(rep)
    hits = [x for x in O.findings.get(FN, []) if x.severity in ("sink", "sink-int") and not (isinstance(x.node, ast.Return))]
    for x in hits:
        rep.bad(R, ix.site(f, x.node), "`%s` does not derive an order from an unordered collection" % x.text, "%s; source %s" % (x.sink, x.taint.src), key="ord|" + x.text)
    if not hits:
        rep.ok(R, ix.site(f), "no unordered collection reaches an order-sensitive sink in to_DiGraph (iteration over the dependency set only selects wires)")


def c16_3(rep, ix, f, sh):
    R = "C16.3"
    rep.rule(R, "one node per operation carrying name <- op['op'], args, kwargs, modes <- tuple(op['modes']); every appended command becomes a node", floor=2)
    fn, op = f.node, sh["op"]
    cmd = sh.get("cmd")
    if cmd is None:
        return
    defs = [n for n in walk_shallow(sh["loop"]) if isinstance(n, ast.Assign) and any(isinstance(t, ast.Name) and t.id == cmd for t in n.targets)]
    ok = False
    detail = ""
    if len(defs) == 1 and isinstance(defs[0].value, ast.Call) and u(defs[0].value.func) == "Command":
        kw = {k.arg: u(k.value) for k in defs[0].value.keywords}
        want_name = kw.get("name") in ("%s['op']" % op, '%s["op"]' % op)
        want_modes = kw.get("modes") in ("tuple(%s['modes'])" % op, 'tuple(%s["modes"])' % op)
        argsrc = kw.get("args")
        kwsrc = kw.get("kwargs")
        okargs = argsrc in ("%s['args']" % op, "args") and kwsrc in ("%s['kwargs']" % op, "kwargs")
        if argsrc == "args":
            a = [n for n in walk_shallow(sh["loop"]) if isinstance(n, ast.Assign) and u(n.targets[0]) == "args"]
            okargs = okargs and len(a) == 1 and u(a[0].value) in ("%s.get('args', [])" % op, "%s['args']" % op)
        if kwsrc == "kwargs":
            a = [n for n in walk_shallow(sh["loop"]) if isinstance(n, ast.Assign) and u(n.targets[0]) == "kwargs"]
            okargs = okargs and len(a) == 1 and u(a[0].value) in ("%s.get('kwargs', {})" % op, "%s['kwargs']" % op)
        ok = want_name and want_modes and okargs
        detail = str(kw)
    rep.check(ok, R, ix.site(f, defs[0]) if defs else ix.site(f), "Command(name=op['op'], args=<op args>, kwargs=<op kwargs>, modes=tuple(op['modes']))", detail, key="command")
    nodes = [(g, x) for g in [ff for qq, ff in ix.funcs.items() if ff.mod == "utils"] for x in ast.walk(g.node) if isinstance(x, ast.Call) and isinstance(x.func, ast.Attribute) and x.func.attr == "add_node"]
    okn = bool(nodes)
    for g, x in nodes:
        star = [k.value for k in x.keywords if k.arg is None]
        good = len(x.args) == 1 and len(star) == 1 and len(x.keywords) == 1
        if good:
            v = star[0]
            if isinstance(v, ast.Name):
                defs = [n for n in ast.walk(g.node) if isinstance(n, ast.Assign) and u(n.targets[0]) == v.id]
                good = bool(defs) and all(u(n.value).endswith("._asdict()") for n in defs)
            else:
                good = u(v).endswith("._asdict()")
        okn = okn and good
    rep.check(okn, R, ix.site(f), "nodes are added as add_node(<index>, **<command>._asdict()): the node attributes are the command's fields", key="add_node")


def c16_4(rep, ix, f):
    R = "C16.4"
    rep.rule(R, "the graph is computed from the program's current operation list only: no other attribute of the program is read or written (no memoisation)", floor=1)
    prog = f.params[0]
    bad = []
    for n in ast.walk(f.node):
        if isinstance(n, ast.Attribute) and isinstance(n.value, ast.Name) and n.value.id == prog and n.attr not in ("operations", "_operations"):
            bad.append(n)
        if isinstance(n, ast.Call) and u(n.func) in ("getattr", "setattr", "hasattr") and n.args and u(n.args[0]) == prog:
            bad.append(n)
    for n in bad:
        rep.bad(R, ix.site(f, n), "to_DiGraph reads only program.operations", "`%s`" % " ".join(u(n).split())[:60], key="attr|" + " ".join(u(n).split())[:60])
    if not bad:
        rep.ok(R, ix.site(f), "to_DiGraph reads only program.operations")
    E = common.eff(rep)
    s = E.summ[FN]
    live = sorted(g for g in s.reads_globals if g in E.written_globals)
    rep.check(not live and not s.mutates, R, ix.site(f), "to_DiGraph neither mutates its argument nor consults written module-level state", "mutates %s reads %s" % (sorted(s.mutates), live), key="pure")
