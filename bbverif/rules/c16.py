"""C16 - the dependency graph is an order-respecting DAG of the operations (structural clauses; DESIGN 5/C16)."""
import ast

from ..report import Inconclusive
from ..py.eff import nonfresh
from ..py.index import u, walk_shallow, pos
from . import common
from .c19 import get_ord

FN = "utils.to_DiGraph"


def run(rep, tier):
    rep.trust(*common.PY_TRUST)
    rep.trust("networkx DiGraph.add_node/add_edge add exactly the given node/edge")
    ix = common.index(rep)
    f = ix.func(FN)
    fn = f.node
    c16_ord(rep, ix, f)
    from .c19 import pairing
    common.guarded(rep, "C08.2", pairing, rep, get_ord(rep), ix, "C08.2")     # the register wires are read from .regrefs: it must list every register of the expression
    from . import c08
    common.guarded(rep, "C08.4", c08.c08_4, rep, ix)
    from ..gram import model as gm
    common.guarded(rep, "C08.3", c08.c08_3, rep, ix, gm.Grammar(gm.read(gm.FILES["g4"], rep)))     # the wire of a register qN is N (all digits of the token)       # a register wire exists only if the argument that reads the register was wrapped into a transform
    c16_4(rep, ix, f)
    shape = common.guarded(rep, "C16.1", recognise, rep, ix, f)
    if shape is not None:
        common.guarded(rep, "C16.1", c16_1, rep, ix, f, shape)
        common.guarded(rep, "C16.2", c16_2, rep, ix, f, shape)
        common.guarded(rep, "C16.3", c16_3, rep, ix, f, shape)


def recognise(rep, ix, f):
    fn = f.node
    prog = f.params[0]
    oploops = [n for n in fn.body if isinstance(n, ast.For) and isinstance(n.iter, ast.Call) and u(n.iter.func) == "enumerate" and len(n.iter.args) == 1
               and u(n.iter.args[0]) in ("%s.operations" % prog, "%s._operations" % prog) and isinstance(n.target, ast.Tuple) and len(n.target.elts) == 2]
    if len(oploops) != 1:
        raise Inconclusive("to_DiGraph: operation loop `for idx, op in enumerate(program.operations)` not recognised")
    lp = oploops[0]
    idx, op = u(lp.target.elts[0]), u(lp.target.elts[1])
    return dict(loop=lp, idx=idx, op=op, prog=prog)


FULL = frozenset(["modes", "args.regrefs", "kwargs.regrefs"])


class DepEval:
    """which wires a set-valued expression of the operation loop denotes: a subset of {modes, registers of transforms among the positional
    arguments, registers of transforms among the keyword values}; anything else in the expression is reported as 'other'"""

    def __init__(self, lp, op):
        self.lp, self.op = lp, op
        self.busy = set()
        self.stale = []

    def denotes(self, e):
        """args / kwargs-values coverage of an iterable expression"""
        t = " ".join(u(e).split())
        op = self.op
        if t in ("%s['args']" % op, "%s.get('args', [])" % op, "%s.get('args', ())" % op, "%s['args'] if 'args' in %s else []" % (op, op), "%s['args'] if 'args' in %s else ()" % (op, op)):
            return {"args"}
        if isinstance(e, ast.Call) and isinstance(e.func, ast.Attribute) and e.func.attr in ("values", "items") and not e.args:
            base = " ".join(u(self.resolve(e.func.value)).split())
            if base in ("%s['kwargs']" % op, "%s.get('kwargs', {})" % op, "%s['kwargs'] if 'kwargs' in %s else {}" % (op, op)):
                return {"kwargs"}
            return {"other"}
        if isinstance(e, ast.Name):
            r = self.resolve(e)
            return self.denotes(r) if r is not e else {"other"}
        # the projection `[v for _, v in X.items()]` / `(v for v in X.values())` denotes what X's values denote
        if isinstance(e, (ast.ListComp, ast.GeneratorExp)) and len(e.generators) == 1 and not e.generators[0].ifs and isinstance(e.elt, ast.Name):
            g = e.generators[0]
            if isinstance(g.iter, ast.Call) and isinstance(g.iter.func, ast.Attribute) and not g.iter.args:
                if g.iter.func.attr == "items" and isinstance(g.target, ast.Tuple) and len(g.target.elts) == 2 and u(g.target.elts[1]) == e.elt.id and u(g.target.elts[0]) != e.elt.id:
                    return self.denotes(g.iter)
                if g.iter.func.attr == "values" and isinstance(g.target, ast.Name) and g.target.id == e.elt.id:
                    return self.denotes(g.iter)
            if isinstance(g.target, ast.Name) and g.target.id == e.elt.id:
                return self.denotes(g.iter)
        if isinstance(e, ast.Call) and u(e.func) in ("list", "tuple", "iter") and len(e.args) == 1:
            return self.denotes(e.args[0])
        if isinstance(e, ast.Call) and u(e.func) in ("chain", "itertools.chain"):
            return set().union(*[self.denotes(a) for a in e.args]) if e.args else set()
        if isinstance(e, ast.BinOp) and isinstance(e.op, ast.Add):
            return self.denotes(e.left) | self.denotes(e.right)
        if isinstance(e, (ast.List, ast.Tuple)) and all(isinstance(x, ast.Starred) for x in e.elts):
            return set().union(*[self.denotes(x.value) for x in e.elts]) if e.elts else set()
        return {"other"}

    def resolve(self, e):
        if isinstance(e, ast.Name):
            defs = [n for n in walk_shallow(self.lp) if isinstance(n, ast.Assign) and len(n.targets) == 1 and isinstance(n.targets[0], ast.Name) and n.targets[0].id == e.id]
            if len(defs) == 1:
                if defs[0] not in self.lp.body:
                    # bound on some paths of the iteration only: on the others the name still holds what an earlier iteration left in it
                    self.stale.append((e.id, defs[0]))
                return defs[0].value
        return e

    def guarded_value_var(self, test, names):
        t = " ".join(u(test).split())
        for v in names:
            if t == "isinstance(%s, RegRefTransform)" % v:
                return v
        return None

    def regs_of_loop(self, w):
        """w adds <x>.regrefs: x must be the element variable of a loop over args / kwargs values, under isinstance(x, RegRefTransform)"""
        out = set()
        for l in walk_shallow(self.lp):
            if isinstance(l, ast.For) and any(x is w for x in ast.walk(l)):
                tv = [x.id for x in ast.walk(l.target) if isinstance(x, ast.Name)]
                for g in ast.walk(l):
                    if isinstance(g, ast.If) and any(x is w for x in ast.walk(g)):
                        v = self.guarded_value_var(g.test, tv)
                        if v and ("%s.regrefs" % v) in u(w):
                            out |= {"%s.regrefs" % c for c in self.denotes(l.iter)}
        return out or {"other"}

    def ev(self, e):
        """-> set of atoms"""
        op = self.op
        t = " ".join(u(e).split())
        if isinstance(e, ast.Call) and u(e.func) in ("set", "frozenset") and len(e.args) == 1 and " ".join(u(e.args[0]).split()) in ("%s['modes']" % op, '%s["modes"]' % op):
            return {"modes"}
        if isinstance(e, ast.Call) and u(e.func) in ("set", "frozenset") and not e.args:
            return set()
        if isinstance(e, ast.BinOp) and isinstance(e.op, ast.BitOr):
            return self.ev(e.left) | self.ev(e.right)
        if isinstance(e, ast.IfExp):
            return self.ev(e.body) | self.ev(e.orelse)          # may-denote: the union is an upper bound
        if isinstance(e, ast.Call) and isinstance(e.func, ast.Attribute) and e.func.attr == "union":
            return self.ev(e.func.value).union(*[self.ev(a) for a in e.args])
        if isinstance(e, ast.Call) and u(e.func) in ("set", "frozenset", "sorted", "list", "tuple") and len(e.args) == 1:
            return self.ev(e.args[0])
        if isinstance(e, (ast.SetComp, ast.GeneratorExp, ast.ListComp)):
            # {r for v in ITER if isinstance(v, RegRefTransform) for r in v.regrefs}
            gens = e.generators
            if len(gens) == 2 and isinstance(gens[0].target, ast.Name) and isinstance(gens[1].target, ast.Name) and u(e.elt) == gens[1].target.id \
                    and " ".join(u(gens[1].iter).split()) == "%s.regrefs" % gens[0].target.id and not gens[1].ifs \
                    and [" ".join(u(c).split()) for c in gens[0].ifs] == ["isinstance(%s, RegRefTransform)" % gens[0].target.id]:
                return {"%s.regrefs" % c for c in self.denotes(gens[0].iter)}
            return {"other"}
        if isinstance(e, ast.Name):
            if e.id in self.busy:
                return set()
            self.busy.add(e.id)
            try:
                out = set()
                found = False
                for n in walk_shallow(self.lp):
                    if isinstance(n, ast.Assign) and any(isinstance(t_, ast.Name) and t_.id == e.id for t_ in n.targets):
                        out |= self.ev(n.value)
                        found = True
                    elif isinstance(n, ast.AugAssign) and isinstance(n.target, ast.Name) and n.target.id == e.id:
                        found = True
                        if not isinstance(n.op, ast.BitOr):
                            out.add("other")
                        elif ".regrefs" in u(n.value):
                            out |= self.regs_of_loop(n)
                        else:
                            out |= self.ev(n.value)
                    elif isinstance(n, ast.Call) and isinstance(n.func, ast.Attribute) and u(n.func.value) == e.id and n.func.attr in ("update", "add", "extend", "append", "discard", "remove", "clear", "pop",
                                                                                                                                    "difference_update", "intersection_update"):
                        found = True
                        if n.func.attr == "update" and n.args and ".regrefs" in u(n.args[0]):
                            out |= self.regs_of_loop(n)
                        elif n.func.attr == "update" and n.args:
                            out |= set().union(*[self.ev(a) for a in n.args])
                        else:
                            out.add("other")
                # is the name bound anew in every iteration?  (a plain binding at the top level of the loop body, or in both branches of
                # a conditional there)
                def binds(stmts):
                    for s_ in stmts:
                        if isinstance(s_, ast.Assign) and any(isinstance(t_, ast.Name) and t_.id == e.id for t_ in s_.targets):
                            return True
                        if isinstance(s_, ast.If) and s_.orelse and binds(s_.body) and binds(s_.orelse):
                            return True
                    return False
                plain = [n for n in walk_shallow(self.lp) if isinstance(n, ast.Assign) and any(isinstance(t_, ast.Name) and t_.id == e.id for t_ in n.targets)]
                if plain and not binds(self.lp.body):
                    self.stale.append((e.id, plain[0]))
                return out if found else {"other"}
            finally:
                self.busy.discard(e.id)
        return {"other"}


def show_deps(d):
    return "{%s}" % ", ".join(sorted(d))


def c16_1(rep, ix, f, sh):
    R = "C16.1"
    rep.rule(R, "the dependency set of an operation is its modes plus the registers of every RegRefTransform in positional and keyword arguments, collected in a set (each wire once); "
                "every place that orders operations by wire uses exactly that set", floor=2)
    lp, op, idx = sh["loop"], sh["op"], sh["idx"]
    D = DepEval(lp, op)
    # grid idiom: for q in D: grid[q].append([idx, cmd])      frontier idiom: for q in D: add_edge(frontier[q], idx) ... for q in D': frontier[q] = idx
    wl = [n for n in lp.body if isinstance(n, ast.For) and any(isinstance(x, ast.Call) and isinstance(x.func, ast.Attribute) and x.func.attr == "append" for x in ast.walk(n))]
    el = [n for n in walk_shallow(lp) if isinstance(n, ast.For) and any(isinstance(x, ast.Call) and isinstance(x.func, ast.Attribute) and x.func.attr == "add_edge" for x in ast.walk(n))]
    if len(wl) >= 1 and not el:
        sh["wire_loop"], sh["idiom"] = wl[0], "grid"
        # several families of wire lists (e.g. one for modes, one for registers) each order the operations: each must see all wires of
        # an operation, or operations that meet only across the families are left unordered
        loops = [("the wire loop" if len(wl) == 1 else "wire loop %d" % (i_ + 1), l_) for i_, l_ in enumerate(wl)]
    elif el and not wl:
        sh["idiom"] = "frontier"
        loops = [("the edge loop", l) for l in el]
        upd = [n for n in walk_shallow(lp) if isinstance(n, ast.For) and n not in el and any(
            isinstance(x, ast.Assign) and isinstance(x.targets[0], ast.Subscript) and " ".join(u(x.value).split()) == idx for x in ast.walk(n))]
        loops += [("the loop that records the latest operation of a wire", l) for l in upd]
        sh["edge_loops"], sh["update_loops"] = el, upd
        if not upd and not any(isinstance(x, ast.Assign) and isinstance(x.targets[0], ast.Subscript) and " ".join(u(x.value).split()) == idx for l in el for x in ast.walk(l)):
            raise Inconclusive("to_DiGraph: single-pass construction without a recognisable latest-operation table")
    else:
        raise Inconclusive("to_DiGraph: neither the wire-list nor the single-pass construction is recognised")
    for what, l in loops:
        got = D.ev(l.iter)
        rep.check(got == FULL, R, ix.site(f, l), "%s runs over the operation's modes and the registers of the transforms among its positional and keyword arguments" % what,
                  "`for %s in %s` runs over %s; missing %s%s" % (u(l.target), " ".join(u(l.iter).split())[:80], show_deps(got), show_deps(FULL - got), "; unrecognised part" if "other" in got else ""),
                  key="deps|" + what)
        it = l.iter
        while isinstance(it, ast.Call) and u(it.func) in ("sorted", "list", "tuple") and it.args:
            it = it.args[0]
        sh.setdefault("dep_exprs", []).append(it)
    seen_stale = set()
    for name, d_ in D.stale:
        if name in seen_stale:
            continue
        seen_stale.add(name)
        from ..py.guards import path_to
        conds = [" ".join(u(st[i_].test).split()) for (st, i_, fld) in (path_to(lp.body, d_) or []) if isinstance(st[i_], ast.If)]
        rep.bad(R, ix.site(f, d_), "every name that enters the dependency set is computed anew for each operation",
                "`%s` is bound only under `%s`: for an operation where that does not hold it still carries the wires of an earlier operation" % (name, " and ".join(conds)[:80] or "a condition"),
                key="stale|" + name)
    # each wire once: the collection is a set (so an operation is not placed twice on a wire)
    for what, l in loops:
        it = l.iter
        is_set = False
        if isinstance(it, ast.Name):
            defs = [n for n in walk_shallow(lp) if isinstance(n, ast.Assign) and any(isinstance(t_, ast.Name) and t_.id == it.id for t_ in n.targets)]
            is_set = bool(defs) and all(isinstance(n.value, (ast.SetComp, ast.Set)) or (isinstance(n.value, ast.Call) and u(n.value.func) in ("set", "frozenset")) or
                                        (isinstance(n.value, ast.BinOp) and isinstance(n.value.op, ast.BitOr)) for n in defs)
        elif isinstance(it, (ast.SetComp,)) or (isinstance(it, ast.BinOp) and isinstance(it.op, ast.BitOr)) or (isinstance(it, ast.Call) and u(it.func) in ("set", "frozenset")):
            is_set = True
        rep.check(is_set, R, ix.site(f, l), "%s iterates a set: each wire is visited once per operation" % what, "iterates `%s`" % " ".join(u(l.iter).split())[:60], key="set|" + what)


def c16_2(rep, ix, f, sh):
    R = "C16.2"
    if sh.get("idiom") == "frontier":
        return c16_2_frontier(rep, ix, f, sh)
    if "wire_loop" not in sh:
        raise Inconclusive("to_DiGraph: wire loop not recognised")
    fn, lp, idx, wl = f.node, sh["loop"], sh["idx"], sh["wire_loop"]
    q = u(wl.target)
    apps = [x for x in ast.walk(wl) if isinstance(x, ast.Call) and isinstance(x.func, ast.Attribute) and x.func.attr == "append"]
    ok = False
    grid = None
    # the entry may be bound to a local first (`entry = (idx, cmd)`), once per operation
    if len(apps) == 1 and apps[0].args and isinstance(apps[0].args[0], ast.Name):
        defs = [n for n in walk_shallow(lp) if isinstance(n, ast.Assign) and len(n.targets) == 1 and isinstance(n.targets[0], ast.Name) and n.targets[0].id == apps[0].args[0].id]
        if len(defs) == 1 and defs[0] in lp.body and isinstance(defs[0].value, (ast.List, ast.Tuple)):
            apps[0].args[0] = defs[0].value
    if len(apps) == 1 and apps[0].args and isinstance(apps[0].args[0], (ast.List, ast.Tuple)) and len(apps[0].args[0].elts) == 2 and u(apps[0].args[0].elts[0]) == idx:
        recv = apps[0].func.value
        if isinstance(recv, ast.Subscript) and u(recv.slice) == q:
            grid = u(recv.value)
            ok = True
        elif isinstance(recv, ast.Call) and isinstance(recv.func, ast.Attribute) and recv.func.attr == "setdefault" and len(recv.args) == 2 and u(recv.args[0]) == q \
                and isinstance(recv.args[1], ast.List) and not recv.args[1].elts:
            grid = u(recv.func.value)
            ok = True
    rep.check(ok, R, ix.site(f, apps[0]) if apps else ix.site(f), "each wire list receives [idx, command] by append, idx being the operation's position", key="append")
    if not ok:
        return
    sh["grid"] = grid
    sh["cmd"] = u(apps[0].args[0].elts[1])
    bad = []
    for n in ast.walk(fn):
        if isinstance(n, ast.Call) and isinstance(n.func, ast.Attribute) and n.func.attr in ("insert", "sort", "reverse", "extend", "pop", "remove") and grid in u(n.func.value):
            bad.append(n)
        if isinstance(n, ast.Assign) and any(isinstance(t, ast.Subscript) and u(t.value) == grid for t in n.targets):
            if not (isinstance(n.value, ast.List) and not n.value.elts):
                bad.append(n)
    rep.check(not bad, R, ix.site(f, bad[0]) if bad else ix.site(f), "wire lists are created empty and never reordered, inserted into or overwritten", "found `%s`" % (u(bad[0]) if bad else ""), key="wire mutation")
    # edges
    edges = [x for x in ast.walk(fn) if isinstance(x, ast.Call) and isinstance(x.func, ast.Attribute) and x.func.attr in ("add_edge", "add_edges_from", "add_weighted_edges_from")]
    gl = [n for n in fn.body if isinstance(n, ast.For) and u(n.iter) in ("%s.items()" % grid, "%s.values()" % grid)]
    if len(gl) != 1 or len(edges) != 1 or edges[0].func.attr != "add_edge" or len(edges[0].args) != 2:
        raise Inconclusive("to_DiGraph: edge construction not recognised (%d add_edge calls)" % len(edges))
    cm = u(gl[0].target.elts[1]) if isinstance(gl[0].target, ast.Tuple) else u(gl[0].target)
    e = edges[0]
    il = [n for n in ast.walk(gl[0]) if isinstance(n, ast.For) and n is not gl[0] and any(x is e for x in ast.walk(n))]
    il = [n for n in il if not any(m is not n and any(x is m for x in ast.walk(n)) for m in il)]
    if len(il) != 1:
        raise Inconclusive("to_DiGraph: loop around add_edge not recognised")
    l = il[0]
    a0, a1 = " ".join(u(e.args[0]).split()), " ".join(u(e.args[1]).split())
    verdict = None
    if isinstance(l.target, ast.Name) and " ".join(u(l.iter).split()) == "range(1, len(%s))" % cm:
        i = l.target.id
        fwd = (a0, a1) == ("%s[%s - 1][0]" % (cm, i), "%s[%s][0]" % (cm, i))
        rev = (a1, a0) == ("%s[%s - 1][0]" % (cm, i), "%s[%s][0]" % (cm, i))
        verdict = True if fwd else (False if rev else None)
    elif isinstance(l.target, ast.Name) and " ".join(u(l.iter).split()) == "range(len(%s) - 1)" % cm:
        i = l.target.id
        fwd = (a0, a1) == ("%s[%s][0]" % (cm, i), "%s[%s + 1][0]" % (cm, i))
        rev = (a1, a0) == ("%s[%s][0]" % (cm, i), "%s[%s + 1][0]" % (cm, i))
        verdict = True if fwd else (False if rev else None)
    elif isinstance(l.target, ast.Tuple) and len(l.target.elts) == 2 and projection_pairs(gl[0], cm, l.iter) is not None:
        # consecutive pairs of the list of index components of the wire: W = [i for i, _ in cmds]; zip(W, W[1:])
        p, c = u(l.target.elts[0]), u(l.target.elts[1])
        fwd = (a0, a1) == (p, c)
        rev = (a0, a1) == (c, p)
        verdict = True if fwd else (False if rev else None)
    elif " ".join(u(l.iter).split()) in ("zip(%s, %s[1:])" % (cm, cm), "zip(%s[:-1], %s[1:])" % (cm, cm), "pairwise(%s)" % cm, "itertools.pairwise(%s)" % cm) \
            and isinstance(l.target, ast.Tuple) and len(l.target.elts) == 2:
        def index_of(t):
            if isinstance(t, ast.Tuple) and t.elts:
                return u(t.elts[0])
            return u(t) + "[0]"
        p, c = index_of(l.target.elts[0]), index_of(l.target.elts[1])
        fwd = (a0, a1) == (p, c)
        rev = (a0, a1) == (c, p)
        verdict = True if fwd else (False if rev else None)
    if verdict is None:
        # decided on a model wire: the body of the wire loop is interpreted over a list of three symbolic entries; the edges it draws must be
        # (first, second), (second, third) - consecutive entries, earlier -> later
        verdict = edge_model(gl[0], cm)
    if verdict is None:
        raise Inconclusive("to_DiGraph: add_edge arguments `%s` in loop `%s` outside the idiom set" % (u(e), u(l.iter)))
    rep.check(verdict, R, ix.site(f, e), "every edge joins the index components of two consecutive entries of one wire list, earlier -> later (hence forward, acyclic, per-wire program order)",
              "got `%s` in loop `for %s in %s`" % (u(e), u(l.target), u(l.iter)), key="edge")


class _Stop(Exception):
    pass


def edge_model(wire_loop, cm):
    """interpret the body of `for ... cm ... in grid...:` on model wires of 3, 2 and 1 symbolic entries (own interpreter over the syntax tree, a
    dozen statement / expression forms; anything else: undecided).  -> True (edges are exactly the consecutive pairs, forward) | False | None"""
    def run(entries):
        env = {cm: list(entries)}
        nodes, edges = set(), []

        def ev(e):
            if isinstance(e, ast.Constant):
                return e.value
            if isinstance(e, ast.Name):
                if e.id == "G":
                    return nodes
                if e.id in env:
                    return env[e.id]
                raise _Stop("name %s" % e.id)
            if isinstance(e, (ast.Tuple, ast.List)):
                return tuple(ev(x) for x in e.elts)
            if isinstance(e, ast.Subscript):
                b = ev(e.value)
                if isinstance(e.slice, ast.Slice):
                    lo = ev(e.slice.lower) if e.slice.lower is not None else None
                    hi = ev(e.slice.upper) if e.slice.upper is not None else None
                    if e.slice.step is not None:
                        raise _Stop("step")
                    return b[lo:hi]
                return b[ev(e.slice)]
            if isinstance(e, ast.BinOp) and isinstance(e.op, (ast.Add, ast.Sub)):
                a, b = ev(e.left), ev(e.right)
                return a + b if isinstance(e.op, ast.Add) else a - b
            if isinstance(e, ast.UnaryOp) and isinstance(e.op, ast.Not):
                return not ev(e.operand)
            if isinstance(e, ast.UnaryOp) and isinstance(e.op, ast.USub):
                return -ev(e.operand)
            if isinstance(e, ast.BoolOp):
                vals = [ev(x) for x in e.values]
                return all(vals) if isinstance(e.op, ast.And) else any(vals)
            if isinstance(e, ast.Compare) and len(e.ops) == 1:
                a, b = ev(e.left), ev(e.comparators[0])
                op = e.ops[0]
                table = {ast.In: lambda: a in b, ast.NotIn: lambda: a not in b, ast.Eq: lambda: a == b, ast.NotEq: lambda: a != b, ast.Lt: lambda: a < b, ast.LtE: lambda: a <= b,
                         ast.Gt: lambda: a > b, ast.GtE: lambda: a >= b, ast.Is: lambda: a is b, ast.IsNot: lambda: a is not b}
                if type(op) in table:
                    return table[type(op)]()
            if isinstance(e, ast.Call):
                fn_ = u(e.func)
                if fn_ in ("len", "range", "iter", "next", "enumerate", "zip", "list", "tuple", "reversed") and not e.keywords:
                    args = [ev(a) for a in e.args]
                    if fn_ == "next":
                        try:
                            return next(*args)
                        except StopIteration:
                            raise _Stop("StopIteration")
                    return {"len": len, "range": range, "iter": iter, "enumerate": enumerate, "zip": zip, "list": list, "tuple": tuple, "reversed": reversed}[fn_](*args)
                if fn_ == "isinstance" and len(e.args) == 2 and not e.keywords:
                    cls = e.args[1].elts if isinstance(e.args[1], ast.Tuple) else [e.args[1]]
                    table = {"list": list, "tuple": tuple, "dict": dict, "str": str, "int": int, "set": set}
                    if all(isinstance(c_, ast.Name) and c_.id in table for c_ in cls):
                        return isinstance(ev(e.args[0]), tuple(table[c_.id] for c_ in cls))
                if fn_ in ("pairwise", "itertools.pairwise") and len(e.args) == 1:
                    x = list(ev(e.args[0]))
                    return list(zip(x, x[1:]))
                if fn_ in ("islice", "itertools.islice") and len(e.args) == 3:
                    x = list(ev(e.args[0]))
                    return x[ev(e.args[1]):ev(e.args[2])]
            raise _Stop("expression %s" % u(e)[:40])

        def bind(t, v):
            if isinstance(t, ast.Name):
                env[t.id] = v
            elif isinstance(t, (ast.Tuple, ast.List)):
                v = tuple(v)
                if len(v) != len(t.elts):
                    raise _Stop("unpack")
                for a, b in zip(t.elts, v):
                    bind(a, b)
            else:
                raise _Stop("target")

        def run_block(stmts):
            for s_ in stmts:
                if isinstance(s_, ast.Assign) and len(s_.targets) == 1:
                    bind(s_.targets[0], ev(s_.value))
                elif isinstance(s_, ast.Expr) and isinstance(s_.value, ast.Call) and isinstance(s_.value.func, ast.Attribute) and u(s_.value.func.value) == "G":
                    a = s_.value.func.attr
                    if a == "add_node" and s_.value.args:
                        nodes.add(ev(s_.value.args[0]))
                    elif a == "add_edge" and len(s_.value.args) == 2:
                        x, y = ev(s_.value.args[0]), ev(s_.value.args[1])
                        nodes.update((x, y))
                        edges.append((x, y))
                    else:
                        raise _Stop("graph call")
                elif isinstance(s_, ast.If):
                    run_block(s_.body if ev(s_.test) else s_.orelse)
                elif isinstance(s_, ast.For):
                    for item in ev(s_.iter):
                        bind(s_.target, item)
                        try:
                            run_block(s_.body)
                        except StopIteration:
                            break
                elif isinstance(s_, (ast.Pass,)) or (isinstance(s_, ast.Expr) and isinstance(s_.value, ast.Constant)):
                    pass
                elif isinstance(s_, ast.Assert):
                    if not ev(s_.test):
                        raise _Stop("assertion fails on a model wire")
                elif isinstance(s_, ast.Continue):
                    raise _Stop("continue")
                else:
                    raise _Stop("statement %s" % type(s_).__name__)
        run_block(wire_loop.body)
        return edges
    try:
        e3 = run([("n0", "c0"), ("n1", "c1"), ("n2", "c2")])
        e2 = run([("n0", "c0"), ("n1", "c1")])
        e1 = run([("n0", "c0")])
    except (_Stop, IndexError, KeyError, TypeError, ValueError, AttributeError):
        return None
    if e3 == [("n0", "n1"), ("n1", "n2")] and e2 == [("n0", "n1")] and e1 == []:
        return True
    return False


def projection_pairs(wire_loop, cm, it):
    """`it` iterates the consecutive pairs of W, a local bound once in the wire loop to the list of index components of the wire list `cm`
    ([i for i, _ in cm] / [c[0] for c in cm]); returns W or None"""
    t = " ".join(u(it).split())
    import re as _re
    m = _re.fullmatch(r"zip\((\w+), (\w+)\[1:\]\)", t) or _re.fullmatch(r"zip\((\w+)\[:-1\], (\w+)\[1:\]\)", t) or _re.fullmatch(r"(?:itertools\.)?pairwise\((\w+)\)()", t)
    if not m or (m.group(2) and m.group(1) != m.group(2)):
        return None
    W = m.group(1)
    binds = [n for n in ast.walk(wire_loop) if isinstance(n, ast.Assign) and any(isinstance(x, ast.Name) and x.id == W for t_ in n.targets for x in ast.walk(t_))]
    if len(binds) != 1 or binds[0] not in wire_loop.body or not isinstance(binds[0].value, ast.ListComp) or len(binds[0].value.generators) != 1:
        return None
    g = binds[0].value.generators[0]
    if " ".join(u(g.iter).split()) != cm or g.ifs:
        return None
    elt = " ".join(u(binds[0].value.elt).split())
    if isinstance(g.target, ast.Tuple) and g.target.elts and elt == u(g.target.elts[0]):
        return W
    if isinstance(g.target, ast.Name) and elt == "%s[0]" % g.target.id:
        return W
    return None


def c16_2_frontier(rep, ix, f, sh):
    """single pass: a table holds the latest operation of every wire; an operation gets an edge from the latest operation of each of its
    wires, then becomes the latest operation of those wires"""
    R = "C16.2"
    fn, lp, idx = f.node, sh["loop"], sh["idx"]
    edges = [x for x in ast.walk(fn) if isinstance(x, ast.Call) and isinstance(x.func, ast.Attribute) and x.func.attr in ("add_edge", "add_edges_from", "add_weighted_edges_from")]
    tables = set()
    for e in edges:
        l = [n for n in sh["edge_loops"] if any(x is e for x in ast.walk(n))]
        if e.func.attr != "add_edge" or len(e.args) != 2 or len(l) != 1 or not isinstance(l[0].target, ast.Name):
            raise Inconclusive("to_DiGraph: edge construction `%s` outside the idiom set" % " ".join(u(e).split())[:60])
        q = l[0].target.id
        a0, a1 = e.args
        fwd = isinstance(a0, ast.Subscript) and u(a0.slice) == q and u(a1) == idx
        rev = isinstance(a1, ast.Subscript) and u(a1.slice) == q and u(a0) == idx
        if not (fwd or rev):
            raise Inconclusive("to_DiGraph: add_edge arguments `%s` outside the idiom set" % u(e))
        rep.check(fwd, R, ix.site(f, e), "every edge goes from the latest earlier operation on a wire to the current operation (forward, acyclic, per-wire program order)", "got `%s`" % u(e), key="edge")
        tab = u((a0 if fwd else a1).value)
        tables.add(tab)
        # the lookup is guarded by membership
        g = [n for n in ast.walk(l[0]) if isinstance(n, ast.If) and any(x is e for x in ast.walk(n))]
        rep.check(any(" ".join(u(n.test).split()) == "%s in %s" % (q, tab) for n in g), R, ix.site(f, e), "the edge is drawn only when the wire already carries an operation", key="edge guard")
    if len(tables) != 1:
        raise Inconclusive("to_DiGraph: more than one latest-operation table")
    tab = tables.pop()
    sh["grid"] = tab
    # writes to the table: tab[q] = idx, after the edges of this operation were drawn
    last_edge = max(pos(e) for e in edges)
    writes = [n for n in ast.walk(fn) if isinstance(n, ast.Assign) and any(isinstance(t, ast.Subscript) and u(t.value) == tab for t in n.targets)]
    for w in writes:
        ok = " ".join(u(w.value).split()) == idx
        rep.check(ok, R, ix.site(f, w), "`%s` records the current operation as the latest on that wire" % " ".join(u(w).split())[:50], key="record|" + " ".join(u(w).split())[:50])
        inner = [l for l in sh["edge_loops"] if any(x is w for x in ast.walk(l))]
        after = pos(w) > last_edge or (inner and all(pos(w) > pos(e) for e in edges if any(x is e for x in ast.walk(inner[0]))))
        rep.check(after, R, ix.site(f, w), "the latest operation of a wire is replaced only after this operation's edge from it was drawn", key="record order|" + " ".join(u(w).split())[:50])
    rep.check(bool(writes), R, ix.site(f), "the latest-operation table is updated", key="record any")
    other = [n for n in ast.walk(fn) if isinstance(n, ast.Call) and isinstance(n.func, ast.Attribute) and u(n.func.value) == tab and n.func.attr in ("pop", "clear", "update", "setdefault", "popitem")]
    rep.check(not other, R, ix.site(f, other[0]) if other else ix.site(f), "the latest-operation table is changed only by those assignments", key="record only")
    inits = [n for n in fn.body if isinstance(n, ast.Assign) and u(n.targets[0]) == tab]
    rep.check(len(inits) == 1 and u(inits[0].value) in ("{}", "dict()") and pos(inits[0]) < pos(lp), R, ix.site(f), "the table starts empty before the operation loop", key="record init")
    # nodes: every operation becomes a node in the loop
    an = [x for x in walk_shallow(lp) if isinstance(x, ast.Call) and isinstance(x.func, ast.Attribute) and x.func.attr == "add_node"]
    top = [s_ for s_ in lp.body if isinstance(s_, ast.Expr) and any(s_.value is x for x in an)]
    rep.check(len(an) == 1 and len(top) == 1 and an[0].args and u(an[0].args[0]) == idx, R, ix.site(f, an[0]) if an else ix.site(f),
              "every operation is added as node <idx> unconditionally", key="node per op")
    cmds = [u(k.value)[:-len("._asdict()")] for x in an for k in x.keywords if k.arg is None and u(k.value).endswith("._asdict()")]
    if cmds:
        sh["cmd"] = cmds[0]


def c16_ord(rep, ix, f):
    R = "C16.2"
    rep.rule(R, "edges point forward: wire lists are only appended to, with items whose first component is the enumerate index of the operation loop, and every add_edge takes its ends from "
                "positions i-1 and i of one wire list; no unordered collection decides an order", floor=4)
    O = get_ord(rep)
    hits = [x for x in O.findings.get(FN, []) if x.severity in ("sink", "sink-int") and not (isinstance(x.node, ast.Return))]
    for x in hits:
        rep.bad(R, ix.site(f, x.node), "`%s` does not derive an order from an unordered collection" % x.text, "%s; source %s" % (x.sink, x.taint.src), key="ord|" + x.text)
    if not hits:
        rep.ok(R, ix.site(f), "no unordered collection reaches an order-sensitive sink in to_DiGraph (iteration over the dependency set only selects wires)")


def c16_3(rep, ix, f, sh):
    R = "C16.3"
    rep.rule(R, "one node per operation carrying name <- op['op'], args, kwargs, modes <- tuple(op['modes']); every appended command becomes a node", floor=2)
    fn, op = f.node, sh["op"]
    cmd = sh.get("cmd")
    if cmd is None:
        return
    defs = [n for n in walk_shallow(sh["loop"]) if isinstance(n, ast.Assign) and any(isinstance(t, ast.Name) and t.id == cmd for t in n.targets)]
    ok = False
    detail = ""
    if len(defs) == 1 and isinstance(defs[0].value, ast.Call) and u(defs[0].value.func) == "Command":
        kw = {k.arg: u(k.value) for k in defs[0].value.keywords}
        want_name = kw.get("name") in ("%s['op']" % op, '%s["op"]' % op)
        want_modes = kw.get("modes") in ("tuple(%s['modes'])" % op, 'tuple(%s["modes"])' % op)
        argsrc = kw.get("args")
        kwsrc = kw.get("kwargs")
        okargs = argsrc in ("%s['args']" % op, "args") and kwsrc in ("%s['kwargs']" % op, "kwargs")
        if argsrc == "args":
            a = [n for n in walk_shallow(sh["loop"]) if isinstance(n, ast.Assign) and u(n.targets[0]) == "args"]
            okargs = okargs and len(a) == 1 and " ".join(u(a[0].value).split()) in ("%s.get('args', [])" % op, "%s['args']" % op, "%s['args'] if 'args' in %s else []" % (op, op))
        if kwsrc == "kwargs":
            a = [n for n in walk_shallow(sh["loop"]) if isinstance(n, ast.Assign) and u(n.targets[0]) == "kwargs"]
            okargs = okargs and len(a) == 1 and " ".join(u(a[0].value).split()) in ("%s.get('kwargs', {})" % op, "%s['kwargs']" % op, "%s['kwargs'] if 'kwargs' in %s else {}" % (op, op))
        ok = want_name and want_modes and okargs
        detail = str(kw)
    rep.check(ok, R, ix.site(f, defs[0]) if defs else ix.site(f), "Command(name=op['op'], args=<op args>, kwargs=<op kwargs>, modes=tuple(op['modes']))", detail, key="command")
    nodes = [(g, x) for g in [ff for qq, ff in ix.funcs.items() if ff.mod == "utils"] for x in ast.walk(g.node) if isinstance(x, ast.Call) and isinstance(x.func, ast.Attribute) and x.func.attr == "add_node"]
    okn = bool(nodes)
    for g, x in nodes:
        star = [k.value for k in x.keywords if k.arg is None]
        good = len(x.args) == 1 and len(star) == 1 and len(x.keywords) == 1
        if good:
            v = star[0]
            if isinstance(v, ast.Name):
                defs = [n for n in ast.walk(g.node) if isinstance(n, ast.Assign) and u(n.targets[0]) == v.id]
                good = bool(defs) and all(u(n.value).endswith("._asdict()") for n in defs)
            else:
                good = u(v).endswith("._asdict()")
        okn = okn and good
    rep.check(okn, R, ix.site(f), "nodes are added as add_node(<index>, **<command>._asdict()): the node attributes are the command's fields", key="add_node")


def c16_4(rep, ix, f):
    R = "C16.4"
    rep.rule(R, "the graph is computed from the program's current operation list only: no other attribute of the program is read or written (no memoisation)", floor=1)
    prog = f.params[0]
    bad = []
    for n in ast.walk(f.node):
        if isinstance(n, ast.Attribute) and isinstance(n.value, ast.Name) and n.value.id == prog and n.attr not in ("operations", "_operations"):
            bad.append(n)
        if isinstance(n, ast.Call) and u(n.func) in ("getattr", "setattr", "hasattr") and n.args and u(n.args[0]) == prog:
            bad.append(n)
    for n in bad:
        rep.bad(R, ix.site(f, n), "to_DiGraph reads only program.operations", "`%s`" % " ".join(u(n).split())[:60], key="attr|" + " ".join(u(n).split())[:60])
    if not bad:
        rep.ok(R, ix.site(f), "to_DiGraph reads only program.operations")
    E = common.eff(rep)
    s = E.summ[FN]
    live = sorted(g for g in s.reads_globals if g in E.written_globals)
    rep.check(not live and not s.mutates, R, ix.site(f), "to_DiGraph neither mutates its argument nor consults written module-level state", "mutates %s reads %s" % (sorted(s.mutates), live), key="pure")
