"""C11 - ill-formed but grammatical programs are refused, never silently accepted (GRD/EXH/SIB; DESIGN 5/C11)."""
import ast
import re
import itertools

from ..report import Inconclusive
from ..gram import model as gm
from ..gram.g4 import Alt, Ref
from ..py.guards import AEval, Reach, KINDS, COMPLEX_KINDS, always_raises, resolved_text, stmt_of, reaching_def, handler_ok
from ..py.index import u, walk_shallow, pos
from . import common, c07

TABLE = "_VAR"
EVAL = "auxiliary._expression"
DECLS = ["listener.BlackbirdListener.exitExpressionvar", "listener.BlackbirdListener.exitArrayvar"]
STMT = "listener.BlackbirdListener.exitStatement"
LOOP = "listener.BlackbirdListener.exitForloop"
INTEGRAL = ("PyInt", "PyBool", "NpInt")


def run(rep, tier):
    rep.trust(*common.PY_TRUST)
    rep.trust("library model of casts: int()/float() of a Python complex raise TypeError; int()/float()/np.array(dtype=float|int) of a NumPy complex scalar only warn and drop the imaginary part; "
              "np.float64 IS-A float, np.complex128 IS-A complex, np.int64 is not an int, bool IS-A int")
    ix = common.index(rep)
    G = gm.Grammar(gm.read(gm.FILES["g4"], rep))
    common.guarded(rep, "C11.1", c11_1, rep, ix)
    # the membership test is only meaningful if the table holds nothing of an earlier (possibly failed) load: clear-before-use (shared with C12)
    from . import c12
    E = common.eff(rep)
    gen = gm.class_tables(gm.read(gm.FILES["py_listener"], rep), "blackbirdListener")
    tables = c12.inventory(rep, E, ix)
    c12.c12_2(rep, ix, G, tables, {n.name for n in gen["cls"].body if isinstance(n, ast.FunctionDef)})
    # every sub-rule runs on its own: an idiom one of them does not recognise must not hide the verdicts of the others
    common.guarded(rep, "C11.2", c11_2, rep, ix, G)
    common.guarded(rep, "C11.3", c11_3, rep, ix)
    common.guarded(rep, "C11.4", c11_4, rep, ix)
    common.guarded(rep, "C11.5", c11_5, rep, ix)
    # an undefined name in a loop header is refused because the header is evaluated before the loop variable exists
    from . import c06
    common.guarded(rep, "C06.3", c06.eager_header, rep, ix)
    common.guarded(rep, "C06.3", c06.c06_3, rep, ix, G)          # the values that are type-checked are the header's own (no coercing conversion of the collected list)
    rep.rule("C07.4", "include call checks (arity, template / keyword set) dominate the expansion (shared with C07)", floor=64)
    common.guarded(rep, "C07.4", c07.c07_4, rep, ix)
    common.guarded(rep, "C11.7", c11_7, rep, ix)
    # the type checks look at the value the initialiser evaluates to, not at a converted or simplified copy of it
    from . import c05
    common.guarded(rep, "C05.2", c05.c05_2, rep, ix)
    # "does not accept arguments" / "missing keyword arguments" are decided from the reported parameters of the included program
    from . import c15
    common.guarded(rep, "C15.1", c15.c15_1, rep, ix, True)


def table_loads(fn, table=TABLE):
    out = []
    for n in walk_shallow(fn):
        if isinstance(n, ast.Subscript) and isinstance(n.value, ast.Name) and n.value.id == table and isinstance(n.ctx, ast.Load):
            out.append(n)
    return out


def raise_payload(fn, raise_stmt, ix=None, mod=None):
    """(class, [resolved texts of the values formatted into the message]) of `raise X("...".format(a, b, c))` / f-strings / `raise helper(...)`"""
    from ..py import norm
    e = raise_stmt.exc
    names = ix.module_globals(mod, follow=True) if ix is not None and mod else None
    if isinstance(e, ast.Call) and ix is not None:
        r = common.make_inliner(ix)(e)
        if r is not None and isinstance(r[0], ast.Call):
            e2, f = r
            # resolve the helper's arguments in the caller's frame first
            cls = u(e2.func)
            args = []
            parts = norm.fmt_parts(e2.args[0]) if e2.args else None
            for p in parts or []:
                if p[0] == "expr":
                    args.append(resolved_text(fn, p[1], raise_stmt))
            return cls, args
    if not isinstance(e, ast.Call):
        return (u(e) if e is not None else None), []
    cls = u(e.func)
    args = []
    parts = norm.fmt_parts(e.args[0], names) if e.args else None
    for p in parts or []:
        if p[0] == "expr":
            args.append(resolved_text(fn, p[1], raise_stmt))
    return cls, args


# ------------------------------------------------------------------------------------ C11.1 undefined names
def c11_1(rep, ix):
    R = "C11.1"
    rep.rule(R, "every lookup of a script-derived name in the variable table is dominated by a membership test whose failing edge raises BlackbirdSyntaxError carrying the token's line, column and the name",
             floor=3)
    for q in ("auxiliary._expression", "auxiliary._get_arguments"):
        f = ix.func(q)
        fn = f.node
        for ld in table_loads(fn):
            st = stmt_of(fn, ld)
            key = resolved_text(fn, ld.slice, st)
            reach = Reach(fn, st)
            verdict = {}
            for defined in (True, False):
                def atom(node, defined=defined):
                    if isinstance(node, ast.Name) and node.id == TABLE:
                        return frozenset(["K"]) if defined else frozenset()
                    if isinstance(node, (ast.Name, ast.Call, ast.Attribute)):
                        try:
                            if resolved_text(fn, node, st) == key:
                                return "K"
                        except Exception:
                            pass
                    return AEval.NO
                verdict[defined] = reach.may_reach(atom)
            site = ix.site(f, ld)
            txt = " ".join(u(st).split())[:90]
            rep.check(verdict[True] and not verdict[False], R, site, "lookup `%s[%s]` in `%s` is reachable only when the name is in the table" % (TABLE, u(ld.slice), txt),
                      "reachable with an undefined name (KeyError instead of BlackbirdSyntaxError)" if verdict[False] else "unreachable even for defined names", key="%s|%s" % (q, key))
            # the guard's failing edge
            g = membership_guard(fn, st, key)
            if g is None:
                if not verdict[False]:
                    rep.info(R, site, "lookup guarded by an enclosing positive membership test")
                continue
            raises = [n for n in ast.walk(g) if isinstance(n, ast.Raise)]
            ok = False
            detail = ""
            for r in raises:
                cls, args = raise_payload(fn, r, ix, f.mod)
                has_line = any(a.endswith(".line") for a in args)
                has_col = any(a.endswith(".column") or a.endswith(".column + 1") for a in args)
                has_name = any(a == key for a in args)
                ok = cls == "BlackbirdSyntaxError" and has_line and has_col and has_name
                detail = "raises %s with arguments %s" % (cls, args)
            rep.check(ok, R, ix.site(f, g), "the failing edge of `%s` raises BlackbirdSyntaxError naming line, column and the identifier" % " ".join(u(g.test).split())[:60], detail,
                      key="%s|payload|%s" % (q, key))


def membership_guard(fn, st, key):
    """the preceding `if <key> not in _VAR: raise` statement"""
    best = None
    for n in ast.walk(fn):
        if isinstance(n, ast.If) and pos(n) < pos(st) and always_raises(n.body) and TABLE in u(n.test):
            t = n.test
            if isinstance(t, ast.Compare) and len(t.ops) == 1 and isinstance(t.ops[0], ast.NotIn):
                try:
                    if resolved_text(fn, t.left, n) == key:
                        best = n
                except Exception:
                    pass
    return best


# ------------------------------------------------------------------------------------ C11.2 reserved names
def c11_2(rep, ix, G):
    R = "C11.2"
    rep.rule(R, "scalar and array declarations both test ctx.name().invalid() before storing, cover every alternative of the grammar rule `invalid`, and raise BlackbirdSyntaxError with line, column and the name",
             floor=8)
    inv = G.R["invalid"].body
    alts = []
    for a in inv.alts[0].items[0].alts if (len(inv.alts) == 1 and len(inv.alts[0].items) == 1 and isinstance(inv.alts[0].items[0], Alt)) else inv.alts:
        if len(a.items) == 1 and isinstance(a.items[0], Ref):
            alts.append(a.items[0].name)
    if not alts:
        raise Inconclusive("grammar rule `invalid` not understood")
    rep.extra["invalid_alternatives"] = alts
    tables = {}
    for q in DECLS:
        f = ix.func(q)
        fn = f.node
        stores = [n for n in walk_shallow(fn) if isinstance(n, ast.Assign) and any(isinstance(t, ast.Subscript) and u(t.value) == TABLE for t in n.targets)]
        if not stores:
            raise Inconclusive("%s: no store into %s found" % (q, TABLE))
        row = {}
        for st in stores:
            reach = Reach(fn, st)
            for which in [None] + alts:
                def atom(node, which=which):
                    if isinstance(node, ast.Call) and isinstance(node.func, ast.Attribute) and not node.args:
                        if node.func.attr == "invalid":
                            return "INVALIDCTX" if which else None
                        if node.func.attr in alts:
                            try:
                                base = resolved_text(fn, node.func.value, stmt_of(fn, node) or st)
                            except Exception:
                                base = u(node.func.value)
                            if base.endswith(".invalid()"):
                                return "CHILD" if node.func.attr == which else None
                    return AEval.NO
                r = reach.may_reach(atom)
                row[which] = r
                txt = "declaration with %s name" % ("an ordinary" if which is None else "a reserved (%s)" % which)
                want = which is None
                rep.check(r == want, R, ix.site(f, st), "%s: the store `%s` is %s for a %s" % (q.split(".")[-1], " ".join(u(st).split())[:40], "reachable" if want else "not reachable", txt),
                          "store reachable: the reserved name is accepted" if r and not want else "store unreachable", key="%s|%s" % (q, which))
        tables[q] = row
        # payload of the reserved-name raises: the raise statements that an ordinary name cannot reach and some reserved alternative can
        def mk_atom(which):
            def atom(node):
                if isinstance(node, ast.Call) and isinstance(node.func, ast.Attribute) and not node.args:
                    if node.func.attr == "invalid":
                        return "INVALIDCTX" if which else None
                    if node.func.attr in alts:
                        try:
                            base = resolved_text(fn, node.func.value, stmt_of(fn, node) or fn.body[0])
                        except Exception:
                            base = u(node.func.value)
                        if base.endswith(".invalid()"):
                            return "CHILD" if node.func.attr == which else None
                return AEval.NO
            return atom
        for r in [x for x in walk_shallow(fn) if isinstance(x, ast.Raise)]:
            reach = Reach(fn, r)
            if reach.may_reach(mk_atom(None)) or not any(reach.may_reach(mk_atom(w)) for w in alts):
                continue
            cls, args = raise_payload(fn, r, ix, f.mod)
            ok = cls == "BlackbirdSyntaxError" and any(a.endswith(".line") for a in args) and any(a.endswith(".column") for a in args) and any("name().getText()" in a for a in args)
            rep.check(ok, R, ix.site(f, r), "%s: reserved-name error is a BlackbirdSyntaxError carrying line, column and the name" % q.split(".")[-1], "raises %s with %s" % (cls, args),
                      key="%s|payload|%s" % (q, " ".join(u(r).split())[:50]))
    rep.check(len({tuple(sorted((str(k), v) for k, v in t.items())) for t in tables.values()}) == 1, R, "listener.BlackbirdListener", "scalar and array declaration handlers agree on the reserved-name check")


# ------------------------------------------------------------------------------------ C11.3 integer modes
def mode_loops(fn):
    """the loops that evaluate the modes of a statement: a for loop whose body binds `<name> = _expression(<something of the loop element>)`"""
    out = []
    for n in walk_shallow(fn):
        if not isinstance(n, ast.For):
            continue
        tv = {x.id for x in ast.walk(n.target) if isinstance(x, ast.Name)}
        for s_ in n.body:
            if isinstance(s_, ast.Assign) and isinstance(s_.value, ast.Call) and u(s_.value.func) == "_expression" and isinstance(s_.targets[0], ast.Name) \
                    and tv & {x.id for a in s_.value.args for x in ast.walk(a) if isinstance(x, ast.Name)}:
                out.append(n)
                break
    return out


def c11_3(rep, ix):
    R = "C11.3"
    rep.rule(R, "a mode value is stored only if it is an integer (Python or NumPy); for every other kind the mode loop raises", floor=len(KINDS))
    f = ix.func(STMT)
    fn = f.node
    # the loop that evaluates the modes: a for loop whose body calls _expression on the loop element and stores into the mode list
    loops = mode_loops(fn)
    if len(loops) != 1:
        return c11_3_separate(rep, ix, f, R)
    loop = loops[0]
    evald = None
    for s in loop.body:
        if isinstance(s, ast.Assign) and isinstance(s.value, ast.Call) and u(s.value.func) == "_expression" and isinstance(s.targets[0], ast.Name):
            evald = s.targets[0].id
    if evald is None:
        raise Inconclusive("exitStatement: evaluated mode value not bound to a name")
    # what is checked and stored is the evaluated value itself: the name is bound once per mode (a conversion in between - rounding a float that
    # is close to a whole number, int() of a string - would make the check pass for values the property says are refused)
    rebinds = [s for s in ast.walk(loop) if isinstance(s, (ast.Assign, ast.AugAssign)) and any(isinstance(x, ast.Name) and x.id == evald and isinstance(x.ctx, ast.Store)
                                                                                                 for t_ in (s.targets if isinstance(s, ast.Assign) else [s.target]) for x in ast.walk(t_))
               and not (isinstance(s, ast.Assign) and isinstance(s.value, ast.Call) and u(s.value.func) == "_expression")]
    for s_ in rebinds:
        rep.bad(R, ix.site(f, s_), "the mode value that is checked and stored is the evaluated expression itself", "`%s` replaces it by a converted value before the integer check"
                % " ".join(u(s_).split())[:70], key="mode|converted|" + " ".join(u(s_).split())[:50])
    stores = [s for s in ast.walk(loop) if isinstance(s, ast.Assign) and isinstance(s.targets[0], ast.Subscript) and u(s.value) == evald]
    appends = [s for s in ast.walk(loop) if isinstance(s, ast.Expr) and isinstance(s.value, ast.Call) and isinstance(s.value.func, ast.Attribute) and s.value.func.attr == "append" and
               s.value.args and u(s.value.args[0]) == evald]
    sinks = stores + appends
    if not sinks:
        raise Inconclusive("exitStatement: store of the evaluated mode not found")
    for name, k in sorted(KINDS.items()):
        def atom(node, k=k):
            if isinstance(node, ast.Name) and node.id == evald:
                return k
            return AEval.NO
        reach_any = False
        for st in sinks:
            r = Reach(fn, st)
            # only the part of the path inside the loop matters
            reach_any = reach_any or r.may_reach(atom)
        falls = Reach(fn, loop.body[-1]).falls_through(loop.body, atom)
        want = name in INTEGRAL
        rep.check(reach_any == want and falls == want, R, ix.site(f, loop), "a mode value of kind %s is %s" % (name, "stored" if want else "refused (the loop body raises)"),
                  "stored=%s, loop body completes normally=%s" % (reach_any, falls), key="mode|" + name)
    # the accumulated mode set is the union with exactly that list
    upd = [n for n in walk_shallow(fn) if isinstance(n, ast.AugAssign) and isinstance(n.op, ast.BitOr) and u(n.target).endswith("_modes")]
    acc = {u(s_.value.func.value) for s_ in appends} | {u(s_.targets[0].value) for s_ in stores}
    upd_src = [u(n.value) for n in upd]
    # the same union written as a method call: <program>._modes.update(<checked list>)
    for n in walk_shallow(fn):
        if isinstance(n, ast.Expr) and isinstance(n.value, ast.Call) and isinstance(n.value.func, ast.Attribute) and n.value.func.attr == "update" and u(n.value.func.value).endswith("_modes") \
                and len(n.value.args) == 1:
            upd.append(n)
            upd_src.append("set(%s)" % u(n.value.args[0]) if not u(n.value.args[0]).startswith("set(") else u(n.value.args[0]))
    rep.check(len(upd) == 1 and upd_src[0] in {"set(%s)" % a_ for a_ in acc} | {"set(%s)" % u(loop.iter)} and pos(upd[0]) > pos(loop), R, ix.site(f, upd[0]) if upd else ix.site(f),
              "the program's mode set is updated, after the check, by union with the checked mode list", key="modes union")


def c11_3_separate(rep, ix, f, R):
    """modes evaluated first (comprehension) and checked in a separate loop / all(): the check must cover every element of the mode list"""
    fn = f.node
    ev = [n for n in walk_shallow(fn) if isinstance(n, ast.Assign) and isinstance(n.targets[0], ast.Name) and isinstance(n.value, ast.ListComp) and "_expression(" in u(n.value.elt)]
    if len(ev) != 1:
        raise Inconclusive("exitStatement: mode evaluation not recognised")
    mlist = ev[0].targets[0].id
    checks = []
    for n in walk_shallow(fn):
        if isinstance(n, ast.For) and pos(n) > pos(ev[0]) and any(isinstance(x, ast.Raise) for x in ast.walk(n)) and "isinstance" in u(n):
            checks.append(n)
    if not checks:
        rep.bad(R, ix.site(f, ev[0]), "every evaluated mode passes an integer check that raises otherwise", "no check loop after `%s`" % " ".join(u(ev[0]).split())[:60], key="mode|nocheck")
        return
    c = checks[0]
    it = " ".join(u(c.iter).split())
    full = it in (mlist, "enumerate(%s)" % mlist, "list(%s)" % mlist, "iter(%s)" % mlist)
    rep.check(full, R, ix.site(f, c), "the integer check iterates over every mode of the statement", "it iterates `%s`: modes outside that collection are stored unchecked" % it, key="mode|coverage")
    var = u(c.target.elts[-1]) if isinstance(c.target, ast.Tuple) else u(c.target)
    for name, k in sorted(KINDS.items()):
        def atom(node, k=k):
            if isinstance(node, ast.Name) and node.id == var:
                return k
            return AEval.NO
        falls = Reach(fn, c.body[-1]).falls_through(c.body, atom)
        want = name in INTEGRAL
        rep.check(falls == want, R, ix.site(f, c), "a mode value of kind %s is %s" % (name, "accepted" if want else "refused (the check raises)"), key="mode|" + name)
    upd = [n for n in walk_shallow(fn) if isinstance(n, ast.AugAssign) and isinstance(n.op, ast.BitOr) and u(n.target).endswith("_modes")]
    rep.check(len(upd) == 1 and pos(upd[0]) > pos(c), R, ix.site(f, upd[0]) if upd else ix.site(f), "the program's mode set is updated only after the check", key="modes union")


# ------------------------------------------------------------------------------------ C11.4 complex -> int/float
def c11_4(rep, ix):
    R = "C11.4"
    rep.rule(R, "a cast to a declared real type is reachable only for kinds the library rejects itself or converts exactly: NumPy complex scalars (which int()/float()/np.array(dtype) "
                "would convert silently) are refused by an explicit guard", floor=16)
    # scalar
    f = ix.func(DECLS[0])
    fn = f.node
    casts = [n for n in walk_shallow(fn) if isinstance(n, ast.Call) and isinstance(n.func, ast.Subscript) and u(n.func.value) in ("PYTHON_TYPES", "NUMPY_TYPES")]
    if not casts:
        raise Inconclusive("exitExpressionvar: cast PYTHON_TYPES[vartype](value) not found")
    for c in casts:
        st = stmt_of(fn, c)
        valname = u(c.args[0]) if c.args else None
        tname = u(c.func.slice)
        for vt in ("int", "float", "complex"):
            for kname in COMPLEX_KINDS + ("PyFloat", "NpFloat", "PyInt", "NpInt"):
                k = KINDS[kname]
                def atom(node, k=k, vt=vt):
                    if isinstance(node, ast.Name) and node.id == valname:
                        return k
                    if isinstance(node, ast.Name) and node.id == tname:
                        return vt
                    return AEval.NO
                r = Reach(fn, st).may_reach(atom)
                silent = kname in ("NpComplex", "NpComplex0") and vt in ("int", "float")
                if kname in COMPLEX_KINDS and vt in ("int", "float") and not silent:
                    continue        # Python complex: the library raises TypeError by itself; a guard may or may not refuse it earlier
                if silent:
                    rep.check(not r, R, ix.site(f, c), "scalar cast `%s` is not reachable for a %s value declared %s" % (u(c), kname, vt),
                              "int()/float() of a NumPy complex scalar only warns and discards the imaginary part", key="scalar|%s|%s|%s" % (u(c), kname, vt))
                else:
                    rep.check(r, R, ix.site(f, c), "scalar cast `%s` stays reachable for a %s value declared %s" % (u(c), kname, vt), "over-strict guard", key="scalar-ok|%s|%s|%s" % (u(c), kname, vt))
    # array
    f = ix.func(DECLS[1])
    fn = f.node
    ctors = [n for n in walk_shallow(fn) if isinstance(n, ast.Call) and u(n.func) in ("np.array", "np.asarray", "numpy.array") and any(k.arg == "dtype" and "NUMPY_TYPES" in u(k.value) for k in n.keywords)]
    if not ctors:
        raise Inconclusive("exitArrayvar: np.array(value, dtype=NUMPY_TYPES[vartype]) not found")
    for c in ctors:
        st = stmt_of(fn, c)
        valname = u(c.args[0])
        tname = [u(k.value.slice) for k in c.keywords if k.arg == "dtype" and isinstance(k.value, ast.Subscript)][0]
        for vt in ("int", "float", "complex"):
            for kname in ("NpComplex", "NpComplex0", "NpFloat", "PyFloat", "NpInt", "PyInt"):
                k = KINDS[kname]
                def atom(node, k=k, vt=vt):
                    if isinstance(node, ast.Name) and node.id == valname:
                        return (KINDS["PyFloat"], k)
                    if isinstance(node, ast.Name) and node.id == tname:
                        return vt
                    return AEval.NO
                r = Reach(fn, st).may_reach(atom)
                silent = kname.startswith("NpComplex") and vt in ("int", "float")
                if silent:
                    rep.check(not r, R, ix.site(f, c), "array construction `%s` is not reachable when an element is %s and the array is declared %s" % (" ".join(u(c).split())[:50], kname, vt),
                              "np.array(dtype=real) of a NumPy complex scalar only warns and discards the imaginary part", key="array|%s|%s" % (kname, vt))
                else:
                    rep.check(r, R, ix.site(f, c), "array construction stays reachable for a %s element declared %s" % (kname, vt), "over-strict guard", key="array-ok|%s|%s" % (kname, vt))
    # what the failing edges raise
    for q in DECLS:
        f = ix.func(q)
        for n in walk_shallow(f.node):
            if isinstance(n, ast.Try):
                for h in n.handlers:
                    rep.check(handler_ok(n, h), R, ix.site(f, h), "%s: a failed cast is re-raised (or retried with the NumPy type and then re-raised), not absorbed" % q.split(".")[-1],
                              key="%s|handler %s" % (q, u(h.type) if h.type else "bare"))


# ------------------------------------------------------------------------------------ C11.5 loop values
def c11_5(rep, ix, R="C11.5"):
    rep.rule(R, "a loop value is bound only after it was cast with the declared type's constructor and compared equal to the original; a mismatch raises ValueError", floor=4)
    f = ix.func(LOOP)
    fn = f.node
    stores = [n for n in walk_shallow(fn) if isinstance(n, ast.Assign) and isinstance(n.targets[0], ast.Subscript) and u(n.targets[0].value) == TABLE]
    if not stores:
        raise Inconclusive("exitForloop: expected a binding of the loop variable in %s, found none" % TABLE)
    loopfor = [n for n in walk_shallow(fn) if isinstance(n, ast.For) and stores[0] in list(ast.walk(n))]
    loopvar = u(loopfor[0].target) if loopfor else None
    for k_, st in enumerate(stores):
        tag = "" if len(stores) == 1 else "binding %d: " % (k_ + 1)
        stored = st.value
        if not isinstance(stored, ast.Name):
            rep.bad(R, ix.site(f, st), "%sthe bound value is the cast result" % tag, "stores `%s`" % u(stored), key="stored|%d" % k_)
            continue
        defs = [n for n in walk_shallow(fn) if isinstance(n, ast.Assign) and any(isinstance(t, ast.Name) and t.id == stored.id for t in n.targets)]
        okdefs = bool(defs)
        if not defs:
            rep.bad(R, ix.site(f, st), "%sthe bound value is the result of casting this loop value with the declared type's constructor" % tag,
                    "`%s` is not assigned from a cast in the loop (e.g. it iterates a pre-converted collection: the per-value check no longer guards the binding)" % stored.id, key="nocast|%d" % k_)
        for d in defs:
            v = d.value
            good = isinstance(v, ast.Call) and isinstance(v.func, ast.Subscript) and u(v.func.value) == "PYTHON_TYPES" and "vartype().getText()" in resolved_text(fn, v.func.slice, d) \
                and len(v.args) == 1 and u(v.args[0]) == loopvar
            rep.check(good, R, ix.site(f, d), "%s`%s` casts the loop value with the declared type's constructor" % (tag, re.sub(r"_r\d+", "<result>", " ".join(u(d).split())[:70])),
                      "every binding of the stored name must be PYTHON_TYPES[<declared type>](<loop value>); this one stores a value computed some other way", key="cast|%d|" % k_ + re.sub(r"_r\d+", "_r", " ".join(u(d).split())[:60]))
            okdefs = okdefs and good
        if not okdefs:
            continue
        # equality guard
        for equal in (True, False):
            def atom(node, equal=equal, stored=stored):
                if isinstance(node, ast.Compare) and len(node.ops) == 1 and {u(node.left), u(node.comparators[0])} == {stored.id, loopvar}:
                    if isinstance(node.ops[0], ast.NotEq):
                        return not equal
                    if isinstance(node.ops[0], ast.Eq):
                        return equal
                if isinstance(node, ast.Call) and not node.args and isinstance(node.func, ast.Attribute) and node.func.attr in ("NAME", "vartype"):
                    return "TOK"
                return AEval.NO
            r = Reach(fn, st).may_reach(atom)
            rep.check(r == equal, R, ix.site(f, st), "%sthe binding is %s when the cast value %s the listed value" % (tag, "reachable" if equal else "not reachable", "equals" if equal else "differs from"),
                      key="equal|%d|%s" % (k_, equal))
        # the failing edge raises ValueError (possibly re-raised by the handler)
        trys = [n for n in walk_shallow(fn) if isinstance(n, ast.Try) and pos(st) > pos(n) and any(x is d for d in defs for x in ast.walk(n))]
        for t in trys:
            for h in t.handlers:
                rep.check(always_raises(h.body) or handler_ok(t, h), R, ix.site(f, h), "the handler around the cast re-raises", key="handler|%d" % k_)


# ------------------------------------------------------------------------------------ C11.7 no swallowing
EXEMPT_TRY = {"error.NoTraceBack.__init__": "constructor of the exception class itself; runs while the error is being raised, absorbs only its own AttributeError"}


def c11_7(rep, ix):
    R = "C11.7"
    rep.rule(R, "no exception handler on the load path absorbs an error without re-raising", floor=3)
    n = 0
    for q, f in sorted(ix.funcs.items()):
        if f.mod not in ("listener", "auxiliary", "error", "__init__"):
            continue
        for t in walk_shallow(f.node):
            if isinstance(t, ast.Try):
                for h in t.handlers:
                    n += 1
                    if q in EXEMPT_TRY:
                        rep.info(R, ix.site(f, h), "exempt: " + EXEMPT_TRY[q])
                        continue
                    rep.check(handler_ok(t, h), R, ix.site(f, h), "`except %s` in %s re-raises on every path (or is a fallback that recomputes the protected value)" % (u(h.type) if h.type else "", q),
                              key="%s|%s" % (q, u(h.type) if h.type else "bare"))
    # warnings must not be turned into silent success either: no global filter changes, and a refusal is never made to depend on whether a
    # warning happens to be recorded (with the caller's filters set to "ignore" nothing is recorded and the value is accepted)
    for q, f in ix.funcs.items():
        orig = getattr(f, "orig", None) or f.node
        scoped = set()
        for w in ast.walk(orig):
            if isinstance(w, ast.With) and any(isinstance(it.context_expr, ast.Call) and u(it.context_expr.func) in ("warnings.catch_warnings", "catch_warnings") for it in w.items):
                first = w.body[0] if w.body else None
                own = isinstance(first, ast.Expr) and isinstance(first.value, ast.Call) and u(first.value.func) in ("warnings.simplefilter", "simplefilter") and first.value.args \
                    and isinstance(first.value.args[0], ast.Constant) and first.value.args[0].value in ("always", "error")
                if own:
                    scoped.add(id(first.value))
                rep.check(own, R, ix.site(f, w), "a block that inspects / converts warnings installs its own filter first (\"always\" or \"error\")",
                          "`%s` records warnings under whatever filters the process has: with warnings ignored nothing is recorded and the check it feeds never fires" % " ".join(u(w.items[0].context_expr).split())[:60],
                          key=q + "|catch_warnings")
        for c in ast.walk(orig):
            if isinstance(c, ast.Call) and u(c.func) in ("warnings.simplefilter", "warnings.filterwarnings", "np.seterr", "numpy.seterr") and id(c) not in scoped:
                rep.bad(R, ix.site(f, c), "the package does not change global warning / floating-point error settings", u(c), key=q + "|" + u(c.func))
