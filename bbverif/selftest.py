"""Self-test of the checkers (DESIGN section 8): every seeded faulty change under /verif/seeded must be reported (exit 1) by its property's check,
every behaviour-preserving change under /verif/benign must leave every check silent (exit 0).  Works on scratch copies outside /repo and /verif.

usage:  python -m bbverif.selftest [--prop Cxx] [--jobs N]         exit 0 = checkers behave, exit 2 = a checker regressed
"""
import argparse
import glob
import json
import os
import shutil
import subprocess
import sys
import tempfile
from concurrent.futures import ThreadPoolExecutor

from . import REPO, VERIF

ANALYSED = ["src", "blackbird_python/blackbird", "blackbird_cpp"]


def scratch(patch):
    d = tempfile.mkdtemp(prefix="bbverif_selftest_")
    for rel in ANALYSED:
        dst = os.path.join(d, rel)
        os.makedirs(os.path.dirname(dst), exist_ok=True)
        shutil.copytree(os.path.join(REPO, rel), dst, ignore=shutil.ignore_patterns("tests", "__pycache__", "*.pyc"))
    # only the analysed directories exist in the scratch copy: parts of a patch that touch other files (change logs, docs) are left out
    r = subprocess.run(["git", "apply", "--exclude=*/tests/*"] + ["--include=%s/*" % rel.split("/")[0] for rel in ANALYSED] + [os.path.abspath(patch)], cwd=d, capture_output=True, text=True)
    if r.returncode != 0:
        shutil.rmtree(d, ignore_errors=True)
        return None, r.stderr[-300:]
    return d, ""


def run_check(prop, root):
    env = dict(os.environ, BBVERIF_REPO=root, BBVERIF_EVIDENCE_DIR=os.path.join(root, "_evidence"), PYTHONPATH=VERIF)
    r = subprocess.run([sys.executable, "-m", "bbverif.check", prop, "--tier", "quick"], cwd=VERIF, env=env, capture_output=True, text=True)
    first = next((l for l in r.stdout.splitlines() if l.startswith(("REFUTED", "ANALYSIS"))), "")
    return r.returncode, first[:200]


def one(case):
    kind, name, patch, props = case
    root, err = scratch(patch)
    if root is None:
        return (kind, name, "patch does not apply to the current tree: " + err, None)
    try:
        res = {p: run_check(p, root) for p in props}
    finally:
        shutil.rmtree(root, ignore_errors=True)
    return (kind, name, None, res)


def cases(prop=None):
    claimed = [c["property_id"] for c in json.load(open(os.path.join(VERIF, "MANIFEST.json")))["checks"]]
    out = []
    for d in sorted(glob.glob(os.path.join(VERIF, "seeded", "*"))):
        name = os.path.basename(d)
        p = name.split("-")[0]
        if prop and p != prop:
            continue
        if p in claimed and os.path.exists(os.path.join(d, "patch.diff")):
            out.append(("must-fire", name, os.path.join(d, "patch.diff"), [p]))
    for d in sorted(glob.glob(os.path.join(VERIF, "benign", "*"))):
        if os.path.exists(os.path.join(d, "patch.diff")):
            out.append(("must-stay-silent", os.path.basename(d), os.path.join(d, "patch.diff"), [prop] if prop else claimed))
    return out


def run(prop=None, jobs=16, quiet=False):
    cs = cases(prop)
    bad = []
    skipped = 0
    with ThreadPoolExecutor(jobs) as ex:
        for kind, name, err, res in ex.map(one, cs):
            if err:
                skipped += 1
                if not quiet:
                    print("SKIP %s %s: %s" % (kind, name, err))
                continue
            for p, (rc, first) in res.items():
                ok = (rc == 1) if kind == "must-fire" else (rc == 0)
                if not ok:
                    bad.append((kind, name, p, rc, first))
                if not quiet or not ok:
                    print("%-16s %-12s %s exit %d %s %s" % (kind, name, p, rc, "ok" if ok else "UNEXPECTED", first if not ok or kind == "must-fire" else ""))
    return cs, bad, skipped


def main():
    ap = argparse.ArgumentParser()
    ap.add_argument("--prop", default=None)
    ap.add_argument("--jobs", type=int, default=16)
    a = ap.parse_args()
    cs, bad, skipped = run(a.prop, a.jobs)
    print("selftest: %d cases, %d unexpected, %d skipped" % (len(cs), len(bad), skipped))
    return 2 if bad else 0


if __name__ == "__main__":
    sys.exit(main())
