"""FIRST_k sets over the grammar (token-name tuples, k small) and the decision-prefix refinement used by C10.5:
when rule X is entered through a prediction among alternatives, the adaptive prediction has already verified the first
G_len(X) tokens of X - the smallest depth d at which some d-prefix of X is not also a d-prefix of a sibling alternative."""
from .g4 import Ref, Seq, Alt, Rep


class FirstK:
    def __init__(self, G, k=2):
        self.G, self.k = G, k
        self.memo = {}
        # fixpoint over parser rules
        self.rule_sets = {r.name: set() for r in G.prules}
        changed = True
        rounds = 0
        while changed and rounds < 50:
            changed = False
            rounds += 1
            for r in G.prules:
                s = self.of(r.body)
                if s != self.rule_sets[r.name]:
                    self.rule_sets[r.name] = s
                    changed = True

    def cat(self, A, B):
        out = set()
        for a in A:
            if len(a) >= self.k:
                out.add(a[:self.k])
            else:
                for b in B:
                    out.add((a + b)[:self.k])
        return out

    def of(self, node):
        if isinstance(node, Ref):
            if node.name in self.G.pidx:
                return set(self.rule_sets[node.name])
            return {(node.name,)}
        if isinstance(node, Seq):
            acc = {()}
            for it in node.items:
                acc = self.cat(acc, self.of(it))
                if all(len(a) >= self.k for a in acc):
                    break
            return acc
        if isinstance(node, Alt):
            out = set()
            for a in node.alts:
                out |= self.of(a)
            return out
        if isinstance(node, Rep):
            body = self.of(node.item)
            if node.kind == "?":
                return body | {()}
            acc = set(body) if node.kind == "+" else ({()} | body)
            for _ in range(self.k):
                acc |= self.cat(acc, body | {()})
            return acc
        return {()}

    def guaranteed_prefix(self, rule):
        """G_len(rule): tokens of the rule already verified by the caller's prediction (0 when the rule is called unconditionally)"""
        best = None
        for r in self.G.prules:
            for alts in self.alt_groups(r.body):
                mine = [a for a in alts if self.is_single_ref(a, rule)]
                if not mine:
                    continue
                others = set()
                for a in alts:
                    if a not in mine:
                        others |= self.of(a)
                X = self.rule_sets[rule]
                g = self.k
                for d in range(1, self.k + 1):
                    xd = {x[:d] for x in X}
                    od = {o[:d] for o in others}
                    if not xd <= od:
                        g = d
                        break
                best = g if best is None else min(best, g)
        return best or 0

    def is_single_ref(self, seq, rule):
        items = seq.items if isinstance(seq, Seq) else [seq]
        return len(items) == 1 and isinstance(items[0], Ref) and items[0].name == rule

    def alt_groups(self, node):
        if isinstance(node, Alt):
            if len(node.alts) > 1:
                yield node.alts
            for a in node.alts:
                yield from self.alt_groups(a)
        elif isinstance(node, Seq):
            for it in node.items:
                yield from self.alt_groups(it)
        elif isinstance(node, Rep):
            yield from self.alt_groups(node.item)


def positions(G, rule_body):
    """error positions of a rule's own body: [(kind 'token'|'decision'|'call', name, min_offset, must_before frozenset)]"""
    out = []

    INF = 10 ** 6
    ml_rule = {r.name: INF for r in G.prules}

    def minlen(node):
        if isinstance(node, Ref):
            return ml_rule[node.name] if node.name in G.pidx else 1
        if isinstance(node, Seq):
            return min(INF, sum(minlen(i) for i in node.items))
        if isinstance(node, Alt):
            return min(minlen(a) for a in node.alts)
        if isinstance(node, Rep):
            return minlen(node.item) if node.kind == "+" else 0
        return 0
    for _ in range(len(G.prules) + 2):
        changed = False
        for r in G.prules:
            v = minlen(r.body)
            if v < ml_rule[r.name]:
                ml_rule[r.name] = v
                changed = True
        if not changed:
            break

    def scan(node, off, must):
        """returns (offset after, must after)"""
        if isinstance(node, Ref):
            if node.name in G.pidx:
                out.append(("call", node.name, off, frozenset(must), ml_rule[node.name]))
                return off + ml_rule[node.name], must | {node.name}
            out.append(("token", node.name, off, frozenset(must)))
            return off + 1, must | {node.name}
        if isinstance(node, Seq):
            for it in node.items:
                off, must = scan(it, off, must)
            return off, must
        if isinstance(node, Alt):
            if len(node.alts) > 1:
                out.append(("decision", "alt", off, frozenset(must)))
            ends = []
            for a in node.alts:
                ends.append(scan(a, off, set(must)))
            return min(e[0] for e in ends), set.intersection(*[set(e[1]) for e in ends])
        if isinstance(node, Rep):
            out.append(("decision", node.kind, off, frozenset(must)))
            o2, m2 = scan(node.item, off, set(must))
            if node.kind == "+":
                return o2, m2
            return off, must
        return off, must
    scan(rule_body, 0, set())
    return out
