"""G (grammar model) and A (ATN model): loading, NFA construction, per-rule language equivalence."""
import ast
import os
import re

from .. import REPO
from ..report import Inconclusive
from . import g4, nfa, atn as atnmod
from .g4 import Lit, CharSet, Wild, Ref, Seq, Alt, Rep, Not

PY = "blackbird_python/blackbird/"
CPP = "blackbird_cpp/"
FILES = {
    "g4": "src/blackbird.g4",
    "py_parser": PY + "blackbirdParser.py", "py_lexer": PY + "blackbirdLexer.py", "py_listener": PY + "blackbirdListener.py",
    "py_interp": PY + "blackbird.interp", "py_lexer_interp": PY + "blackbirdLexer.interp",
    "py_tokens": PY + "blackbird.tokens", "py_lexer_tokens": PY + "blackbirdLexer.tokens",
    "cpp_parser": CPP + "blackbirdParser.cpp", "cpp_lexer": CPP + "blackbirdLexer.cpp",
    "cpp_parser_h": CPP + "blackbirdParser.h", "cpp_lexer_h": CPP + "blackbirdLexer.h",
    "cpp_interp": CPP + "blackbird.interp", "cpp_lexer_interp": CPP + "blackbirdLexer.interp",
    "cpp_tokens": CPP + "blackbird.tokens", "cpp_lexer_tokens": CPP + "blackbirdLexer.tokens",
}


def read(rel, rep=None):
    p = os.path.join(REPO, rel)
    if not os.path.exists(p):
        raise Inconclusive("anchor file vanished: %s" % rel)
    data = open(p, encoding="utf-8").read()
    if rep is not None:
        rep.file(rel, data)
    return data


class Grammar:
    """G: rules, token table, alternatives."""

    def __init__(self, text):
        try:
            self.name, self.rules = g4.P(g4.lex(text)).grammar()
        except SyntaxError as e:
            raise Inconclusive("blackbird.g4 not understood by the g4 meta-syntax parser: %s" % e)
        self.prules = [r for r in self.rules if r.name[0].islower()]
        self.lrules = [r for r in self.rules if r.name[0].isupper()]
        self.pidx = {r.name: i for i, r in enumerate(self.prules)}
        self.lidx = {r.name: i for i, r in enumerate(self.lrules)}
        self.tokens = [r for r in self.lrules if not r.fragment]
        self.ttype = {r.name: i + 1 for i, r in enumerate(self.tokens)}
        self.ttype["EOF"] = -1
        self.R = {r.name: r for r in self.rules}
        self.skip = [r.name for r in self.lrules if "skip" in r.commands]

    def literal_of(self, tok):
        """literal text when the lexer rule is a single literal, else None"""
        r = self.R.get(tok)
        if r is None:
            return None
        b = r.body
        if len(b.alts) == 1 and len(b.alts[0].items) == 1 and isinstance(b.alts[0].items[0], Lit):
            return b.alts[0].items[0].text
        return None

    def labels(self, rule):
        return [l for l in self.R[rule].body.labels if l]


# ---------------------------------------------------------------- grammar -> NFA

def build(n, node, s, ref):
    if isinstance(node, Seq):
        for it in node.items:
            s = build(n, it, s, ref)
        return s
    if isinstance(node, Alt):
        e = n.new()
        for a in node.alts:
            b = n.new()
            n.add_eps(s, b)
            n.add_eps(build(n, a, b, ref), e)
        return e
    if isinstance(node, Rep):
        b = n.new()
        e = n.new()
        n.add_eps(s, b)
        x = build(n, node.item, b, ref)
        n.add_eps(x, e)
        if node.kind in "?*":
            n.add_eps(s, e)
        if node.kind in "*+":
            n.add_eps(x, b)
        return e
    return ref(n, node, s)


def left_recursive_rewrite(rule):
    nalts = len(rule.body.alts)
    prim, suff, table = [], [], []
    for i, seq in enumerate(rule.body.alts):
        prec = nalts - i
        items = seq.items
        isself = lambda x: isinstance(x, Ref) and x.name == rule.name
        right = (rule.body.opts[i] or "").replace(" ", "") == "<assoc=right>"
        lab = rule.body.labels[i]
        if items and isself(items[0]) and isself(items[-1]) and len(items) >= 3:
            nxt = prec if right else prec + 1
            suff.append(("binary", prec, items[1:-1], nxt))
            table.append({"label": lab, "kind": "binary", "prec": prec, "rhs": nxt, "right": right, "ops": items[1:-1]})
        elif items and isself(items[0]):
            suff.append(("suffix", prec, items[1:], None))
            table.append({"label": lab, "kind": "suffix", "prec": prec, "rhs": None, "right": right, "ops": items[1:]})
        elif items and isself(items[-1]) and len(items) >= 2:
            prim.append(("prefix", prec, items[:-1], prec))
            table.append({"label": lab, "kind": "prefix", "prec": prec, "rhs": prec, "right": right, "ops": items[:-1]})
        else:
            prim.append(("primary", prec, items, None))
            table.append({"label": lab, "kind": "primary", "prec": prec, "rhs": None, "right": right, "ops": items})
    return prim, suff, table


def is_left_recursive(rule):
    return any(a.items and isinstance(a.items[0], Ref) and a.items[0].name == rule.name for a in rule.body.alts)


def grammar_rule_nfa(G, rule):
    n = nfa.NFA()
    s = n.new()
    n.start = s

    def parser_ref(n_, node, s_):
        e = n_.new()
        if not isinstance(node, Ref):
            raise Inconclusive("parser rule %s uses a literal or set directly: %r" % (rule.name, node))
        if node.name in G.ttype:
            n_.add(s_, ("T", G.ttype[node.name]), e)
        elif node.name in G.pidx:
            n_.add(s_, ("R", G.pidx[node.name], 0), e)
        else:
            raise Inconclusive("rule %s references undefined symbol %s" % (rule.name, node.name))
        return e

    if not is_left_recursive(rule):
        n.accept = {build(n, rule.body, s, parser_ref)}
        return n, None
    selfidx = G.pidx[rule.name]
    prim, suff, table = left_recursive_rewrite(rule)

    def rec(q):
        def f(n_, s_):
            e = n_.new()
            n_.add(s_, ("R", selfidx, q), e)
            return e
        return f

    pe = n.new()
    for kind, prec, items, nxt in prim:
        b = n.new()
        n.add_eps(s, b)
        x = build(n, Seq(list(items)), b, parser_ref)
        if kind == "prefix":
            x = rec(nxt)(n, x)
        n.add_eps(x, pe)
    loop = n.new()
    n.add_eps(pe, loop)
    for kind, prec, items, nxt in suff:
        b = n.new()
        n.add_eps(loop, b)
        c = n.new()
        n.add(b, ("P", prec), c)
        x = build(n, Seq(list(items)), c, parser_ref)
        if kind == "binary":
            x = rec(nxt)(n, x)
        n.add_eps(x, loop)
    n.accept = {loop}
    return n, table


def lexer_rule_nfa(G, rule, inline=False):
    n = nfa.NFA()
    s = n.new()
    n.start = s

    def lexer_ref(n_, node, s_):
        e = n_.new()
        if isinstance(node, Lit):
            cur = s_
            if not node.text:
                n_.add_eps(s_, e)
                return e
            for i, ch in enumerate(node.text):
                nx = e if i == len(node.text) - 1 else n_.new()
                n_.add(cur, ("CS", ((ord(ch), ord(ch)),)), nx)
                cur = nx
            return e
        if isinstance(node, CharSet):
            n_.add(s_, ("CS", tuple(nfa.norm_ranges(node.ranges))), e)
            return e
        if isinstance(node, Wild):
            n_.add(s_, ("CS", ((0, nfa.MAXCP),)), e)
            return e
        if isinstance(node, Not):
            inner = node.item
            if isinstance(inner, CharSet):
                rs = inner.ranges
            elif isinstance(inner, Lit) and len(inner.text) == 1:
                rs = [(ord(inner.text), ord(inner.text))]
            else:
                raise Inconclusive("unsupported ~ operand in lexer rule %s" % rule.name)
            n_.add(s_, ("CS", tuple(nfa.complement(rs))), e)
            return e
        if isinstance(node, Ref):
            if node.name not in G.lidx:
                raise Inconclusive("lexer rule %s references undefined %s" % (rule.name, node.name))
            if inline:
                x = build(n_, G.R[node.name].body, s_, lexer_ref)
                n_.add_eps(x, e)
            else:
                n_.add(s_, ("R", G.lidx[node.name]), e)
            return e
        raise Inconclusive("unsupported element in lexer rule %s: %r" % (rule.name, node))

    n.accept = {build(n, rule.body, s, lexer_ref)}
    return n


# ---------------------------------------------------------------- ATN -> NFA

def atn_rule_nfa(A, r, lexer=False):
    n = nfa.NFA()
    m = {}

    def st(k):
        if k not in m:
            m[k] = n.new()
        return m[k]

    for s in A.states:
        if s is None or s.rule != r:
            continue
        a = st(s.num)
        for t in s.trans:
            if t.type in ("EPSILON", "ACTION"):
                n.add_eps(a, st(t.dst))
            elif t.type == "RULE":
                n.add(a, ("R", t.a2, t.a3) if not lexer else ("R", t.a2), st(t.dst))
            elif t.type == "PRECEDENCE":
                n.add(a, ("P", t.a1), st(t.dst))
            elif t.type == "PREDICATE":
                raise Inconclusive("semantic predicate in ATN rule %d" % r)
            elif not lexer:
                if t.type == "ATOM":
                    n.add(a, ("T", -1 if t.a3 else t.a1), st(t.dst))
                elif t.type == "SET":
                    for lo, hi in A.sets[t.a1]:
                        for v in range(lo, hi + 1):
                            n.add(a, ("T", v), st(t.dst))
                elif t.type == "RANGE":
                    for v in range(t.a1, t.a2 + 1):
                        n.add(a, ("T", v), st(t.dst))
                elif t.type in ("NOT_SET", "WILDCARD"):
                    lo_hi = range(1, A.maxTokenType + 1)
                    excl = set()
                    if t.type == "NOT_SET":
                        for lo, hi in A.sets[t.a1]:
                            excl |= set(range(lo, hi + 1))
                    for v in lo_hi:
                        if v not in excl:
                            n.add(a, ("T", v), st(t.dst))
                else:
                    raise Inconclusive("parser ATN transition %s" % t.type)
            else:
                if t.type == "ATOM":
                    rs = [(t.a1, t.a1)]
                elif t.type == "RANGE":
                    rs = [(t.a1, t.a2)]
                elif t.type == "SET":
                    rs = A.sets[t.a1]
                elif t.type == "NOT_SET":
                    rs = nfa.complement(A.sets[t.a1])
                elif t.type == "WILDCARD":
                    rs = [(0, nfa.MAXCP)]
                else:
                    raise Inconclusive("lexer ATN transition %s" % t.type)
                n.add(a, ("CS", tuple(nfa.norm_ranges([x for x in rs if x[0] >= 0]))), st(t.dst))
    if r >= len(A.ruleStart) or r not in A.ruleStop:
        raise Inconclusive("ATN has no rule %d" % r)
    n.start = st(A.ruleStart[r])
    n.accept = {st(A.ruleStop[r])}
    return n


def atomise(*nfas):
    sets = [y[1] for n in nfas for s in n.edges for (y, _) in n.edges[s] if y[0] == "CS"]
    ats = nfa.atoms(sets)
    for n in nfas:
        for s in n.edges:
            new = []
            for (y, b) in n.edges[s]:
                if y[0] != "CS":
                    new.append((y, b))
                    continue
                for i, (lo, hi) in enumerate(ats):
                    if any(l <= lo and hi <= h for (l, h) in y[1]):
                        new.append((("C", i), b))
            n.edges[s] = new
    return ats


# ---------------------------------------------------------------- generated Python class tables

def class_tables(src, clsname):
    """literalNames, symbolicNames, ruleNames, token constants and RULE_ constants of the generated class"""
    t = ast.parse(src)
    cls = [n for n in t.body if isinstance(n, ast.ClassDef) and n.name == clsname]
    if len(cls) != 1:
        raise Inconclusive("generated class %s not found" % clsname)
    out = {"consts": {}, "cls": cls[0], "tree": t}
    for n in cls[0].body:
        if isinstance(n, ast.Assign) and len(n.targets) == 1 and isinstance(n.targets[0], ast.Name):
            name = n.targets[0].id
            try:
                v = ast.literal_eval(n.value)
            except Exception:
                continue
            if isinstance(v, list):
                out[name] = v
            elif isinstance(v, int):
                out["consts"][name] = v
    return out


def parse_tokens_file(text):
    d = {}
    for line in text.splitlines():
        if not line.strip():
            continue
        k, _, v = line.rpartition("=")
        d[k] = int(v)
    return d


class Model:
    """Everything the grammar-side rules need, loaded once from the working tree."""

    def __init__(self, rep=None):
        self.rep = rep
        self.src = {k: read(v, rep) for k, v in FILES.items()}
        self.G = Grammar(self.src["g4"])
        self.parser_ints = {
            "py class": atnmod.ints_from_py_source(self.src["py_parser"]),
            "cpp class": atnmod.ints_from_cpp_source(self.src["cpp_parser"]),
            "py .interp": atnmod.parse_interp(self.src["py_interp"])["atn"],
            "cpp .interp": atnmod.parse_interp(self.src["cpp_interp"])["atn"],
        }
        self.lexer_ints = {
            "py class": atnmod.ints_from_py_source(self.src["py_lexer"]),
            "cpp class": atnmod.ints_from_cpp_source(self.src["cpp_lexer"]),
            "py .interp": atnmod.parse_interp(self.src["py_lexer_interp"])["atn"],
            "cpp .interp": atnmod.parse_interp(self.src["cpp_lexer_interp"])["atn"],
        }
        self.PA = atnmod.deserialize(self.parser_ints["py class"])
        self.LA = atnmod.deserialize(self.lexer_ints["py class"])
        self.ptab = class_tables(self.src["py_parser"], "blackbirdParser")
        self.ltab = class_tables(self.src["py_lexer"], "blackbirdLexer")
