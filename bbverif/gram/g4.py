"""Parser for the ANTLR4 meta-syntax subset used by blackbird.g4 (prototype)."""
import re
from dataclasses import dataclass, field
from typing import List, Optional

TOK = re.compile(r"""
  (?P<ws>\s+) | (?P<lc>//[^\n]*) | (?P<bc>/\*.*?\*/)
 | (?P<lit>'(?:\\.|[^'\\])*')
 | (?P<set>\[(?:\\.|[^\]\\])*\])
 | (?P<arrow>->) | (?P<pluseq>\+=)
 | (?P<opt><[^>]*>)
 | (?P<id>[A-Za-z_][A-Za-z_0-9]*)
 | (?P<hash>\#) | (?P<p>[:;|()?*+~.=])
""", re.X | re.S)

def lex(text):
    pos = 0; out = []
    while pos < len(text):
        m = TOK.match(text, pos)
        if not m: raise SyntaxError("g4 lex error at %d: %r" % (pos, text[pos:pos+20]))
        k = m.lastgroup
        if k not in ("ws", "lc", "bc"):
            out.append((k, m.group(k), text.count("\n", 0, pos) + 1))
        pos = m.end()
    out.append(("eof", "", 0))
    return out

# EBNF AST
@dataclass
class Lit:  text: str
@dataclass
class CharSet: ranges: list; negated: bool = False   # list of (lo,hi) code points
@dataclass
class Wild: pass
@dataclass
class Ref:  name: str; label: Optional[str] = None; listlabel: bool = False
@dataclass
class Seq:  items: list
@dataclass
class Alt:  alts: list; labels: list = field(default_factory=list); opts: list = field(default_factory=list)
@dataclass
class Rep:  item: object; kind: str   # '?', '*', '+'
@dataclass
class Not:  item: object
@dataclass
class Rule: name: str; body: Alt; fragment: bool = False; commands: list = field(default_factory=list); line: int = 0

def unescape(s):
    out = []; i = 0
    while i < len(s):
        c = s[i]
        if c == "\\":
            i += 1; e = s[i]
            if e == "n": out.append("\n")
            elif e == "r": out.append("\r")
            elif e == "t": out.append("\t")
            elif e == "u": out.append(chr(int(s[i+1:i+5], 16))); i += 4
            else: out.append(e)
        else: out.append(c)
        i += 1
    return out

def parse_set(body):
    chars = unescape(body); ranges = []; i = 0
    while i < len(chars):
        if i + 2 < len(chars) and chars[i+1] == "-" :
            ranges.append((ord(chars[i]), ord(chars[i+2]))); i += 3
        else:
            ranges.append((ord(chars[i]), ord(chars[i]))); i += 1
    return ranges

class P:
    def __init__(self, toks): self.t = toks; self.i = 0
    def peek(self): return self.t[self.i]
    def next(self): x = self.t[self.i]; self.i += 1; return x
    def accept(self, kind, val=None):
        k, v, _ = self.peek()
        if k == kind and (val is None or v == val): self.i += 1; return v
        return None
    def expect(self, kind, val=None):
        r = self.accept(kind, val)
        if r is None: raise SyntaxError("g4: expected %s %s got %r" % (kind, val, self.peek()))
        return r
    def grammar(self):
        self.expect("id", "grammar"); name = self.expect("id"); self.expect("p", ";")
        rules = []
        while self.peek()[0] != "eof":
            rules.append(self.rule())
        return name, rules
    def rule(self):
        line = self.peek()[2]
        frag = False
        if self.peek()[1] == "fragment": self.next(); frag = True
        name = self.expect("id"); self.expect("p", ":")
        body = self.altlist(top=True)
        cmds = body.__dict__.pop("_cmds", [])
        self.expect("p", ";")
        return Rule(name, body, frag, cmds, line)
    def altlist(self, top=False):
        alts = []; labels = []; opts = []; cmds = []
        while True:
            opt = self.accept("opt")
            seq = self.seq()
            lab = None
            if self.accept("hash"): lab = self.expect("id")
            if self.accept("arrow"):
                cmds.append(self.expect("id"))
                while self.accept("p", ","): cmds.append(self.expect("id"))
            alts.append(seq); labels.append(lab); opts.append(opt)
            if not self.accept("p", "|"): break
        a = Alt(alts, labels, opts)
        if cmds: a._cmds = cmds
        return a
    def seq(self):
        items = []
        while True:
            k, v, _ = self.peek()
            if k in ("eof", "hash", "arrow") or (k == "p" and v in ";|)"): break
            items.append(self.element())
        return Seq(items)
    def element(self):
        k, v, _ = self.peek()
        label = None; listlabel = False
        if k == "id" and self.t[self.i+1][0] in ("pluseq",) :
            label = self.next()[1]; self.next(); listlabel = True
        elif k == "id" and self.t[self.i+1][:2] == ("p", "="):
            label = self.next()[1]; self.next()
        atom = self.atom()
        if label and isinstance(atom, Ref): atom.label = label; atom.listlabel = listlabel
        while True:
            s = self.peek()
            if s[0] == "p" and s[1] in "?*+":
                self.next(); atom = Rep(atom, s[1])
                self.accept("p", "?")  # non-greedy marker not used here
            else: break
        return atom
    def atom(self):
        k, v, _ = self.next()
        if k == "p" and v == "~": return Not(self.atom())
        if k == "p" and v == "(":
            a = self.altlist(); self.expect("p", ")"); return a
        if k == "p" and v == ".": return Wild()
        if k == "lit": return Lit("".join(unescape(v[1:-1])))
        if k == "set": return CharSet(parse_set(v[1:-1]))
        if k == "id": return Ref(v)
        raise SyntaxError("g4: unexpected %r" % ((k, v),))

def load(path):
    name, rules = P(lex(open(path).read())).grammar()
    return name, rules

if __name__ == "__main__":
    name, rules = load("/repo/src/blackbird.g4")
    print(name, len(rules), sum(r.name[0].islower() for r in rules), "parser rules;", sum(r.fragment for r in rules), "fragments")
    for r in rules[:3] + [x for x in rules if x.name in ("expression","COMPLEX","SPACE")]: print(r)
