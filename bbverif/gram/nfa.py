"""NFA over hashable symbols; determinise; equivalence with counterexample (prototype)."""
from collections import deque

class NFA:
    def __init__(self):
        self.n = 0; self.eps = {}; self.edges = {}  # state -> [(sym, dst)]
        self.start = None; self.accept = set()
    def new(self):
        s = self.n; self.n += 1; self.eps[s] = []; self.edges[s] = []; return s
    def add(self, a, sym, b): self.edges[a].append((sym, b))
    def add_eps(self, a, b): self.eps[a].append(b)
    def closure(self, states):
        st = list(states); seen = set(states)
        while st:
            s = st.pop()
            for t in self.eps[s]:
                if t not in seen: seen.add(t); st.append(t)
        return frozenset(seen)
    def step(self, S, sym):
        return self.closure({b for s in S for (y, b) in self.edges[s] if y == sym})
    def syms(self, S):
        return {y for s in S for (y, _) in self.edges[s]}

def equivalent(A, B):
    """Return None if L(A)==L(B) else a shortest distinguishing word (list of symbols) and which side accepts."""
    a0 = A.closure({A.start}); b0 = B.closure({B.start})
    seen = {(a0, b0)}; q = deque([(a0, b0, ())])
    while q:
        a, b, w = q.popleft()
        fa = bool(a & A.accept); fb = bool(b & B.accept)
        if fa != fb: return list(w), ("left" if fa else "right")
        for y in sorted(A.syms(a) | B.syms(b), key=repr):
            na = A.step(a, y); nb = B.step(b, y)
            if (na, nb) not in seen:
                seen.add((na, nb)); q.append((na, nb, w + (y,)))
    return None

# ---- character-class handling for lexer NFAs: symbols are frozensets of atoms after partition refinement
MAXCP = 0x10FFFF
def norm_ranges(rs):
    rs = sorted(rs); out = []
    for lo, hi in rs:
        if out and lo <= out[-1][1] + 1: out[-1] = (out[-1][0], max(out[-1][1], hi))
        else: out.append((lo, hi))
    return out
def complement(rs):
    rs = norm_ranges(rs); out = []; prev = 0
    for lo, hi in rs:
        if lo > prev: out.append((prev, lo - 1))
        prev = hi + 1
    if prev <= MAXCP: out.append((prev, MAXCP))
    return out
def atoms(all_sets):
    """Partition code points into atoms (intervals) such that every set is a union of atoms."""
    cuts = {0, MAXCP + 1}
    for rs in all_sets:
        for lo, hi in rs: cuts.add(lo); cuts.add(hi + 1)
    cuts = sorted(cuts)
    return [(cuts[i], cuts[i+1] - 1) for i in range(len(cuts) - 1)]
