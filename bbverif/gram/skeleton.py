"""NEWLINE skeleton (C18.3): inline the rules that mention NEWLINE/TAB, keep every other rule opaque,
determinise, and decide at which positions one more NEWLINE is absorbed (language-equivalent state)."""
from collections import deque

from ..report import Inconclusive
from . import nfa


def build(M, from_grammar=False):
    """returns dict(dfa info).  Built from the shipped parser ATN (what actually runs)."""
    A = M.PA
    ruleNames = M.ptab["ruleNames"]
    sym = M.ptab["symbolicNames"]
    if "NEWLINE" not in sym or "TAB" not in sym:
        raise Inconclusive("NEWLINE/TAB tokens vanished")
    NL, TAB = sym.index("NEWLINE"), sym.index("TAB")

    def mentions(r):
        for s in A.states:
            if s and s.rule == r:
                for t in s.trans:
                    if t.type == "ATOM" and t.a1 in (NL, TAB):
                        return True
                    if t.type == "SET" and any(lo <= x <= hi for (lo, hi) in A.sets[t.a1] for x in (NL, TAB)):
                        return True
        return False

    inl = {r for r in range(len(ruleNames)) if mentions(r)}
    n = nfa.NFA()
    origin = {}

    def inst(r, ctx):
        if r in ctx:
            raise Inconclusive("NEWLINE-skeleton rule %s is recursive" % ruleNames[r])
        m = {}

        def st(k):
            if k not in m:
                m[k] = n.new()
                origin[m[k]] = (ruleNames[r], k)
            return m[k]

        for s in A.states:
            if s is None or s.rule != r:
                continue
            a = st(s.num)
            if s.type == "RULE_STOP":
                continue
            for t in s.trans:
                if t.type in ("EPSILON", "ACTION"):
                    n.add_eps(a, st(t.dst))
                elif t.type == "RULE":
                    if t.a2 in inl:
                        s2, e2 = inst(t.a2, ctx | {r})
                        n.add_eps(a, s2)
                        n.add_eps(e2, st(t.dst))
                    else:
                        n.add(a, "<" + ruleNames[t.a2] + ">", st(t.dst))
                elif t.type == "ATOM":
                    n.add(a, "EOF" if t.a3 else sym[t.a1], st(t.dst))
                elif t.type == "SET":
                    for lo, hi in A.sets[t.a1]:
                        for v in range(lo, hi + 1):
                            n.add(a, sym[v], st(t.dst))
                else:
                    raise Inconclusive("skeleton: transition %s" % t.type)
        return st(A.ruleStart[r]), st(A.ruleStop[r])

    s0, e0 = inst(0, frozenset())
    n.start = s0
    n.accept = {e0}
    start = n.closure({n.start})
    dstates = {start: 0}
    trans = {}
    q = deque([start])
    while q:
        S = q.popleft()
        for y in n.syms(S):
            T = n.step(S, y)
            if T not in dstates:
                dstates[T] = len(dstates)
                q.append(T)
            trans[(S, y)] = T
    alph = sorted({y for (_, y) in trans})
    part = {S: (1 if S & n.accept else 0) for S in dstates}
    while True:
        sig = {S: (part[S], tuple(part.get(trans.get((S, y)), -1) for y in alph)) for S in dstates}
        ids = {}
        newp = {S: ids.setdefault(sig[S], len(ids)) for S in dstates}
        if len(set(newp.values())) == len(set(part.values())):
            part = newp
            break
        part = newp
    return dict(nfa=n, origin=origin, dstates=dstates, trans=trans, part=part, inlined=sorted(ruleNames[r] for r in inl), alphabet=alph)


def incoming(sk, T):
    return sorted({y for (S, y), T1 in sk["trans"].items() if T1 == T})


def active_rules(sk, S):
    n = sk["nfa"]
    return sorted({sk["origin"][s][0] for s in S if n.edges[s]})
