"""Own deserialiser for ANTLR 4.9.2 serialised ATNs, and extraction of the integer arrays
from the four kinds of shipped artefact (Python class, C++ class, .interp files)."""
import ast
import re
from dataclasses import dataclass, field

from ..report import Inconclusive

ST = {1: "BASIC", 2: "RULE_START", 3: "BLOCK_START", 4: "PLUS_BLOCK_START", 5: "STAR_BLOCK_START", 6: "TOKEN_START",
      7: "RULE_STOP", 8: "BLOCK_END", 9: "STAR_LOOP_BACK", 10: "STAR_LOOP_ENTRY", 11: "PLUS_LOOP_BACK", 12: "LOOP_END"}
TT = {1: "EPSILON", 2: "RANGE", 3: "RULE", 4: "PREDICATE", 5: "ATOM", 6: "ACTION", 7: "SET", 8: "NOT_SET", 9: "WILDCARD",
      10: "PRECEDENCE"}


@dataclass
class State:
    num: int
    type: str
    rule: int
    extra: int = -1
    trans: list = field(default_factory=list)


@dataclass
class Trans:
    src: int
    dst: int
    type: str
    a1: int
    a2: int
    a3: int


class ATN:
    pass


def ints_from_py_source(src, what="serializedATN"):
    t = ast.parse(src)
    fs = [n for n in t.body if isinstance(n, ast.FunctionDef) and n.name == what]
    if len(fs) != 1:
        raise Inconclusive("no unique module-level function %s() in generated Python recogniser" % what)
    chunks = []
    for c in ast.walk(fs[0]):
        if isinstance(c, ast.Call) and isinstance(c.func, ast.Attribute) and c.func.attr == "write":
            if len(c.args) != 1 or not isinstance(c.args[0], ast.Constant) or not isinstance(c.args[0].value, str):
                raise Inconclusive("serializedATN(): buf.write() argument is not a string constant")
            chunks.append((c.lineno, c.col_offset, c.args[0].value))
    chunks.sort()
    return [ord(ch) for _, _, s in chunks for ch in s]


def ints_from_cpp_source(src):
    m = re.search(r"serializedATNSegment0\[\]\s*=\s*\{(.*?)\};", src, re.S)
    if not m:
        raise Inconclusive("no serializedATNSegment0[] in C++ recogniser")
    segs = re.findall(r"serializedATNSegment(\d+)\[\]\s*=\s*\{(.*?)\};", src, re.S)
    out = []
    for _, body in sorted(segs, key=lambda x: int(x[0])):
        out += [int(x, 16) for x in re.findall(r"0x[0-9a-fA-F]+", body)]
    return out


def parse_interp(text):
    """-> dict with token literal names, symbolic names, rule names, (channel/mode names), atn ints"""
    sections = {}
    cur = None
    for line in text.split("\n"):
        if line.endswith(":") and re.fullmatch(r"[a-z ]+:", line):
            cur = line[:-1]
            sections[cur] = []
        elif cur is not None:
            sections[cur].append(line)
    for k in sections:
        while sections[k] and sections[k][-1] == "":
            sections[k].pop()
    if "atn" not in sections:
        raise Inconclusive(".interp file has no atn section")
    body = "".join(sections["atn"]).strip()
    sections["atn"] = [int(x) for x in body.strip("[]").split(",")]
    return sections


def deserialize(raw):
    if not raw:
        raise Inconclusive("empty serialised ATN")
    data = [raw[0]] + [(v - 2) & 0xFFFF for v in raw[1:]]
    pos = [0]

    def rd():
        if pos[0] >= len(data):
            raise Inconclusive("serialised ATN truncated")
        v = data[pos[0]]
        pos[0] += 1
        return v

    def rd32():
        lo = rd()
        hi = rd()
        return lo | (hi << 16)

    a = ATN()
    a.version = rd()
    if a.version != 3:
        raise Inconclusive("serialised ATN version %r (expected 3)" % a.version)
    a.uuid = [rd() for _ in range(8)]
    a.grammarType = rd()
    a.maxTokenType = rd()
    a.states = []
    for i in range(rd()):
        st = rd()
        if st == 0:
            a.states.append(None)
            continue
        if st not in ST:
            raise Inconclusive("unknown ATN state type %d" % st)
        ri = rd()
        ri = -1 if ri == 0xFFFF else ri
        s = State(i, ST[st], ri)
        if ST[st] == "LOOP_END" or ST[st] in ("BLOCK_START", "PLUS_BLOCK_START", "STAR_BLOCK_START"):
            s.extra = rd()
        a.states.append(s)
    a.nongreedy = [rd() for _ in range(rd())]
    a.precedence = [rd() for _ in range(rd())]
    a.ruleStart = []
    a.ruleTokenType = []
    for i in range(rd()):
        a.ruleStart.append(rd())
        if a.grammarType == 0:
            tt = rd()
            a.ruleTokenType.append(-1 if tt == 0xFFFF else tt)
    a.modes = [rd() for _ in range(rd())]
    a.sets = []
    for reader in (rd, rd32):
        for i in range(rd()):
            n = rd()
            eof = rd()
            rs = [(-1, -1)] if eof else []
            for j in range(n):
                lo = reader()
                hi = reader()
                rs.append((lo, hi))
            a.sets.append(rs)
    for i in range(rd()):
        src = rd(); dst = rd(); tt = rd(); a1 = rd(); a2 = rd(); a3 = rd()
        if tt not in TT or src >= len(a.states) or a.states[src] is None:
            raise Inconclusive("malformed ATN edge %d" % i)
        a.states[src].trans.append(Trans(src, dst, TT[tt], a1, a2, a3))
    a.decisions = [rd() for _ in range(rd())]
    a.lexerActions = []
    if a.grammarType == 0:
        for i in range(rd()):
            a.lexerActions.append((rd(), rd(), rd()))
    if pos[0] != len(data):
        raise Inconclusive("serialised ATN has %d trailing integers" % (len(data) - pos[0]))
    a.ruleStop = {}
    for s in a.states:
        if s and s.type == "RULE_STOP":
            a.ruleStop[s.rule] = s.num
    return a
