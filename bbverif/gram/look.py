"""LL(1) lookahead sets on the deserialised ATN - a re-implementation of what ANTLR's LL1Analyzer.getDecisionLookahead computes
(context-free LOOK with the global follow at the end of a rule, predicates not seen through).  Used by K1b to compare the token sets
the generated rule methods test at their decisions with the sets the ATN prescribes."""

EOF_T = -1
HIT_PRED = "PRED"


class Look:
    def __init__(self, atn):
        self.atn = atn
        self.callers = {}                  # rule index -> follow states of all its call sites (the runtime's stop-state epsilon edges)
        for s in atn.states:
            if s is None:
                continue
            for t in s.trans:
                if t.type == "RULE":
                    self.callers.setdefault(t.a2, []).append(t.dst)
        self.user = set(range(1, atn.maxTokenType + 1))

    def label(self, t):
        if t.type == "ATOM":
            return {EOF_T} if t.a3 else {t.a1}
        if t.type == "RANGE":
            lo = EOF_T if t.a3 else t.a1
            return set(range(lo, t.a2 + 1)) - {0}
        if t.type in ("SET", "NOT_SET"):
            out = set()
            for lo, hi in self.atn.sets[t.a1]:
                out |= set(range(lo, hi + 1))
            out -= {0}
            return out if t.type == "SET" else self.user - out
        if t.type == "WILDCARD":
            return set(self.user)
        return None

    def of_target(self, state_num):
        """LOOK of the sub-machine entered at state_num, with an empty calling context"""
        out = set()
        self._look(state_num, (), out, set(), frozenset())
        return out

    def _look(self, s, ctx, out, busy, called):
        key = (s, ctx)
        if key in busy:
            return
        busy.add(key)
        st = self.atn.states[s]
        if st.type == "RULE_STOP":
            if ctx:
                self._look(ctx[-1], ctx[:-1], out, busy, called)
                return
            for f in self.callers.get(st.rule, []):
                self._look(f, (), out, busy, called)
            return
        for t in st.trans:
            if t.type == "RULE":
                rule = t.a2
                if rule in called:
                    continue
                self._look(t.a1, ctx + (t.dst,), out, busy, called | {rule})
            elif t.type in ("PREDICATE", "PRECEDENCE"):
                out.add(HIT_PRED)
            elif t.type in ("EPSILON", "ACTION"):
                self._look(t.dst, ctx, out, busy, called)
            else:
                out |= self.label(t)
