"""Entry point:  python -m bbverif.check <ID> --tier quick|thorough [--replay path]

exit 0  every rule instance found and discharged (known findings are printed, not failed)
exit 1  VIOLATION property=<id> replay=<path>   (a rule instance is positively refuted)
exit 2  ANALYSIS-ERROR / ANALYSIS-INCONCLUSIVE  (could not decide; never a verdict)
"""
import argparse
import importlib
import json
import os
import sys
import traceback

from . import VERIF
from .report import Report, Inconclusive

LEVELS = {
    "C12": "proof", "C13": "proof", "C19": "proof", "C14": "translation_validation",
}


def load_known():
    p = os.path.join(VERIF, "known_findings.json")
    if not os.path.exists(p):
        return []
    return json.load(open(p)).get("known", [])


def thorough_extras(rep, prop):
    """thorough tier = quick rules + library-model validation + ATN deserialiser cross-check + the self-test slice of this property
    (every seeded faulty change of the property must be reported, every benign change must leave the check silent)"""
    from . import libcheck, selftest
    from .gram import model as gm
    from .rules import common
    M = gm.Model(rep)
    common.guarded(rep, "LIB", libcheck.validate, rep, M.G)
    common.guarded(rep, "LIB.ATN", libcheck.atn_cross_check, rep, M)
    rep.rule("SELFTEST", "checker self-test: every seeded faulty change of this property under /verif/seeded is reported (exit 1), every behaviour-preserving change under /verif/benign leaves the check silent (exit 0)", floor=1)
    cs, bad, skipped = selftest.run(prop, jobs=16, quiet=True)
    for kind, name, _, _ in cs:
        hit = [b for b in bad if b[1] == name]
        if hit:
            rep.unknown("SELFTEST", name, "%s variant %s gives the expected verdict" % (kind, name), "exit %d: %s" % (hit[0][3], hit[0][4]))
        else:
            rep.ok("SELFTEST", name, "%s variant %s gives the expected verdict" % (kind, name))
    rep.extra["selftest"] = {"cases": len(cs), "unexpected": len(bad), "skipped_patch_does_not_apply": skipped}


def main(argv=None):
    ap = argparse.ArgumentParser()
    ap.add_argument("prop")
    ap.add_argument("--tier", default=os.environ.get("VERIF_TIER", "quick"), choices=["quick", "thorough"])
    ap.add_argument("--replay", default=None)
    a = ap.parse_args(argv)
    prop = a.prop.upper()
    seed = int(os.environ.get("VERIF_SEED", "0") or 0)
    rep = Report(prop, a.tier, LEVELS.get(prop, "other"), seed)
    try:
        mod = importlib.import_module("bbverif.rules.%s" % prop.lower())
    except BaseException as e:        # a broken checker must never look like a verdict
        print("ANALYSIS-ERROR property=%s rule module cannot be loaded: %s: %s" % (prop, type(e).__name__, e))
        return 2
    try:
        mod.run(rep, a.tier)
        from .rules import crosscut
        crosscut.run(rep, prop)
        if a.tier == "thorough":
            thorough_extras(rep, prop)
        if a.replay:
            want = {(d["rule"], d["key"]) for d in json.load(open(a.replay))}
            rep.obs = [o for o in rep.obs if (o.rule, o.key) in want or o.status != "refuted"]
        code, lines = rep.finish(load_known())
    except Inconclusive as e:
        print("ANALYSIS-INCONCLUSIVE property=%s %s" % (prop, e))
        try:
            rep.unknown("analysis", "-", str(e))
            rep.write_evidence(2, 0)
        except Exception:
            pass
        return 2
    except Exception as e:  # a traceback must never masquerade as a violation
        print("ANALYSIS-ERROR property=%s %s: %s" % (prop, type(e).__name__, e))
        traceback.print_exc()
        return 2
    for l in lines:
        print(l)
    dec = [o for o in rep.obs if o.status in ("discharged", "refuted", "known")]
    print("%s tier=%s: %d obligations over %d rules, %d discharged, %d known, exit %d (%.2fs)" % (
        prop, a.tier, len(dec), len(rep.rules), sum(o.status == "discharged" for o in rep.obs),
        sum(o.status == "known" for o in rep.obs), code, __import__("time").time() - rep.t0))
    return code


if __name__ == "__main__":
    try:
        c = main()
    except SystemExit as e:
        c = e.code if isinstance(e.code, int) else 2
    except BaseException as e:
        print("ANALYSIS-ERROR %s: %s" % (type(e).__name__, e))
        c = 2
    sys.stdout.flush()
    sys.stderr.flush()
    os._exit(c)
