"""Entry point:  python -m bbverif.check <ID> --tier quick|thorough [--replay path]

exit 0  every rule instance found and discharged (known findings are printed, not failed)
exit 1  VIOLATION property=<id> replay=<path>   (a rule instance is positively refuted)
exit 2  ANALYSIS-ERROR / ANALYSIS-INCONCLUSIVE  (could not decide; never a verdict)
"""
import argparse
import importlib
import json
import os
import sys
import traceback

from . import VERIF
from .report import Report, Inconclusive

LEVELS = {
    "C12": "proof", "C13": "proof", "C19": "proof", "C14": "translation_validation",
}


def load_known():
    p = os.path.join(VERIF, "known_findings.json")
    if not os.path.exists(p):
        return []
    return json.load(open(p)).get("known", [])


def main(argv=None):
    ap = argparse.ArgumentParser()
    ap.add_argument("prop")
    ap.add_argument("--tier", default=os.environ.get("VERIF_TIER", "quick"), choices=["quick", "thorough"])
    ap.add_argument("--replay", default=None)
    a = ap.parse_args(argv)
    prop = a.prop.upper()
    seed = int(os.environ.get("VERIF_SEED", "0") or 0)
    rep = Report(prop, a.tier, LEVELS.get(prop, "other"), seed)
    try:
        mod = importlib.import_module("bbverif.rules.%s" % prop.lower())
    except ImportError as e:
        print("ANALYSIS-ERROR property=%s no rule module: %s" % (prop, e))
        return 2
    try:
        mod.run(rep, a.tier)
        if a.replay:
            want = {(d["rule"], d["key"]) for d in json.load(open(a.replay))}
            rep.obs = [o for o in rep.obs if (o.rule, o.key) in want or o.status != "refuted"]
        code, lines = rep.finish(load_known())
    except Inconclusive as e:
        print("ANALYSIS-INCONCLUSIVE property=%s %s" % (prop, e))
        try:
            rep.unknown("analysis", "-", str(e))
            rep.write_evidence(2, 0)
        except Exception:
            pass
        return 2
    except Exception as e:  # a traceback must never masquerade as a violation
        print("ANALYSIS-ERROR property=%s %s: %s" % (prop, type(e).__name__, e))
        traceback.print_exc()
        return 2
    for l in lines:
        print(l)
    dec = [o for o in rep.obs if o.status in ("discharged", "refuted", "known")]
    print("%s tier=%s: %d obligations over %d rules, %d discharged, %d known, exit %d (%.2fs)" % (
        prop, a.tier, len(dec), len(rep.rules), sum(o.status == "discharged" for o in rep.obs),
        sum(o.status == "known" for o in rep.obs), code, __import__("time").time() - rep.t0))
    return code


if __name__ == "__main__":
    sys.stdout.flush()
    c = main()
    sys.stdout.flush()
    os._exit(c)
