"""EFF - effects and provenance (DESIGN 4.5).

Abstract value = (origins of the object itself, origins of what it contains, definitely-immutable flag).
Origins: FRESH | PARAM:<p> | GLOBAL:<mod>.<name>.  Flow-sensitive, syntax-directed (the handwritten modules use only
structured control flow); function summaries are computed to a fixpoint over the package call graph.
"""
import ast

from ..report import Inconclusive
from .index import u, root_name

FRESH = "FRESH"
MUT_METHODS = {"append", "extend", "insert", "update", "clear", "pop", "remove", "sort", "reverse", "setdefault", "add", "discard",
               "popitem", "fill", "resize", "put", "itemset", "setflags", "difference_update", "intersection_update",
               "symmetric_difference_update", "add_node", "add_edge", "add_nodes_from", "add_edges_from", "remove_node", "remove_edge",
               "appendleft", "extendleft", "popleft", "__setitem__", "__delitem__", "__setattr__", "write", "writelines"}
SHALLOW_CALLS = {"list", "dict", "set", "tuple", "sorted", "frozenset", "enumerate", "zip", "reversed", "iter", "filter", "map", "OrderedDict",
                 "defaultdict", "deque"}
IMM_CALLS = {"len", "str", "int", "float", "complex", "bool", "repr", "abs", "min", "max", "sum", "isinstance", "hasattr", "range", "type",
             "id", "hash", "round", "ord", "chr", "any", "all", "format", "issubclass", "callable"}
LIB_ROOTS = {"np", "numpy", "sym", "sympy", "nx", "networkx", "os", "warnings", "re", "antlr4", "sys", "isomorphism", "math", "itertools",
             "functools", "textwrap", "collections"}
VIEW_METHODS = {"reshape", "ravel", "view", "squeeze", "transpose", "swapaxes", "setdefault", "T"}
STR_METHODS = {"format", "join", "split", "replace", "strip", "lstrip", "rstrip", "isdigit", "startswith", "endswith", "lower", "upper",
               "getText", "splitlines", "encode", "decode", "count", "index", "find", "zfill", "title", "isalpha", "isalnum", "partition"}


class Val:
    """self_o: origins of the object; elem_o: origins of its direct elements / attributes; cont_o: origins of anything deeper"""
    __slots__ = ("self_o", "elem_o", "cont_o", "imm", "callee")

    def __init__(self, s=(FRESH,), e=None, c=None, imm=False, callee=None):
        self.self_o = frozenset(s)
        if c is None:          # two-argument form Val(self, content): elements and deeper content are both `e`
            c = e if e is not None else (FRESH,)
        if e is None:
            e = (FRESH,)
        self.elem_o = frozenset(e)
        self.cont_o = frozenset(c)
        self.imm = imm
        self.callee = callee     # qual of a package function/class this value is known to be

    def join(a, b):
        return Val(a.self_o | b.self_o, a.elem_o | b.elem_o, a.cont_o | b.cont_o, a.imm and b.imm, a.callee if a.callee == b.callee else None)

    def __eq__(a, b):
        return isinstance(b, Val) and (a.self_o, a.elem_o, a.cont_o, a.imm, a.callee) == (b.self_o, b.elem_o, b.cont_o, b.imm, b.callee)

    def __hash__(self):
        return hash((self.self_o, self.elem_o, self.cont_o, self.imm))

    @property
    def below(self):
        return self.elem_o | self.cont_o

    @property
    def reach(self):
        return self.self_o | self.elem_o | self.cont_o

    def __repr__(self):
        return "<%s|%s|%s%s>" % (",".join(sorted(self.self_o)), ",".join(sorted(self.elem_o)), ",".join(sorted(self.cont_o)), " imm" if self.imm else "")


def elem(v):
    return Val(v.elem_o, v.cont_o, v.cont_o)


def container(vals, spread=()):
    """fresh container holding `vals` as elements (and the elements of the values in `spread`)"""
    e, c = set(), set()
    for v in vals:
        e |= v.self_o
        c |= v.below
    for v in spread:
        e |= v.elem_o
        c |= v.cont_o
    return Val([FRESH], e or [FRESH], c or [FRESH])


def shallow(v):
    return Val([FRESH], v.elem_o, v.cont_o)


FRESHV = Val()
IMMV = Val(imm=True)


def origin_val(o):
    """initial value of a parameter / module global: the object is `o`, everything inside it is `IN:o`"""
    return Val([o], ["IN:" + o], ["IN:" + o])


def base_origin(o):
    return o[3:] if o.startswith("IN:") else o


def nonfresh(origins):
    return sorted(o for o in origins if o != FRESH)


class Event:
    """a mutation: `what` applied to an object with origins target.self_o; `stored` = value put into it (or None)"""
    __slots__ = ("fn", "node", "what", "target", "stored", "via")

    def __init__(self, fn, node, what, target, stored=None, via=None):
        self.fn, self.node, self.what, self.target, self.stored, self.via = fn, node, what, target, stored, via


class Summary:
    def __init__(self):
        self.mutates = {}       # origin -> example description   (PARAM:p / GLOBAL:x mutated, directly or through callees)
        self.ret = None         # Val in terms of the function's own params / globals
        self.reads_globals = set()

    def key(self):
        return (tuple(sorted(self.mutates)), self.ret, tuple(sorted(self.reads_globals)))


IMMUTABLE_CALLS = ("frozenset", "tuple", "str", "int", "float", "complex", "bool", "bytes", "re.compile", "namedtuple", "collections.namedtuple", "NamedTuple", "TypeVar", "typing.TypeVar",
                   "logging.getLogger", "getLogger", "object", "property", "staticmethod", "classmethod", "Enum", "np.dtype", "np.float64", "np.int64", "np.complex128",
                   "sym.Symbol", "Symbol", "sym.symbols", "os.path.join", "os.path.dirname", "os.path.abspath", "os.getcwd", "len", "min", "max", "type")


class Eff:
    def __init__(self, index, mutable_globals=None):
        self.ix = index
        self.summ = {}
        self.events = {}      # qual -> [Event]
        self.props = index.properties()
        self.mutable_globals = mutable_globals   # dict mod -> set(names) treated as GLOBAL origins; None = infer
        if self.mutable_globals is None:
            self.mutable_globals = {}
            for m in index.mods:
                g = set()
                for name, val in index.module_globals(m).items():
                    # displays, container constructors, and every other object made by a call that is not known to be immutable
                    if isinstance(val, (ast.Dict, ast.List, ast.Set, ast.ListComp, ast.DictComp, ast.SetComp)) or (
                            isinstance(val, ast.Call) and u(val.func) not in IMMUTABLE_CALLS):
                        g.add(name)
                self.mutable_globals[m] = g
        self.immutable_fields = self._immutable_fields()

    def _immutable_fields(self):
        """attributes that __init__ binds to a parameter whose default is an immutable constant, or to an immutable constant"""
        out = set()
        for q, f in self.ix.funcs.items():
            if f.name != "__init__" or not f.cls:
                continue
            a = f.node.args
            defaults = dict(zip([x.arg for x in a.args][len(a.args) - len(a.defaults):], a.defaults))
            for n in ast.walk(f.node):
                if isinstance(n, ast.Assign) and len(n.targets) == 1 and isinstance(n.targets[0], ast.Attribute) and u(n.targets[0].value) == "self":
                    v = n.value
                    if isinstance(v, ast.Constant) and not isinstance(v.value, (bytes,)):
                        out.add(n.targets[0].attr)
                    elif isinstance(v, ast.Name) and isinstance(defaults.get(v.id), ast.Constant) and defaults[v.id].value is not None:
                        out.add(n.targets[0].attr)
        # an attribute assigned a mutable value anywhere is not immutable
        for q, f in self.ix.funcs.items():
            for n in ast.walk(f.node):
                if isinstance(n, ast.Assign):
                    for t in n.targets:
                        if isinstance(t, ast.Attribute) and t.attr in out and isinstance(n.value, (ast.Dict, ast.List, ast.Set, ast.ListComp, ast.DictComp)):
                            out.discard(t.attr)
        return out

    # ------------------------------------------------------------------ driver
    def solve(self, rounds=6):
        for q in self.ix.funcs:
            self.summ[q] = Summary()
        for _ in range(rounds):
            changed = False
            for q, f in self.ix.funcs.items():
                old = self.summ[q].key()
                self.analyse(f)
                if self.summ[q].key() != old:
                    changed = True
            if not changed:
                self.written_globals = {base_origin(o) for s_ in self.summ.values() for o in s_.mutates if base_origin(o).startswith("GLOBAL:")}
                return
        raise Inconclusive("EFF summaries did not reach a fixpoint")

    def analyse(self, f):
        run = _Run(self, f)
        run.go()
        s = self.summ[f.qual]
        s.ret = run.ret
        s.mutates = {}
        for e in run.events:
            for o in e.target.self_o:
                if o != FRESH:
                    s.mutates.setdefault(o, "%s at line %d" % (e.what, getattr(e.node, "lineno", 0)))
        s.reads_globals = run.reads_globals
        self.events[f.qual] = run.events
        self.final_env = getattr(self, "final_env", {})
        self.final_env[f.qual] = run.ret_envs
        return run


class _Run:
    def __init__(self, eff, f):
        self.eff, self.f, self.ix = eff, f, eff.ix
        self.events = []
        self.ret = None
        self.ret_envs = []
        self.reads_globals = set()
        self.globals_here = eff.mutable_globals.get(f.mod, set())

    def go(self):
        env = {}
        a = self.f.node.args
        for x in a.posonlyargs + a.args + a.kwonlyargs:
            env[x.arg] = origin_val("PARAM:" + x.arg)
        for x in (a.vararg, a.kwarg):
            if x:
                o = "IN:PARAM:" + x.arg
                env[x.arg] = Val([FRESH], [o], [o])
        end = self.block(self.f.node.body, env)
        if end is not None:
            self.ret_envs.append(end)

    # ---- statements; an env of None means "unreachable"
    def block(self, stmts, env):
        for s in stmts:
            if env is None:
                return None
            env = self.stmt(s, env)
        return env

    def joinenv(self, a, b):
        if a is None:
            return b
        if b is None:
            return a
        out = {}
        for k in set(a) | set(b):
            if k in a and k in b:
                out[k] = a[k].join(b[k])
            else:
                out[k] = a.get(k) or b.get(k)
        return out

    def stmt(self, s, env):
        if isinstance(s, ast.Assign):
            v = self.expr(s.value, env)
            for t in s.targets:
                env = self.assign(t, v, env, s)
            return env
        if isinstance(s, ast.AnnAssign):
            if s.value is not None:
                return self.assign(s.target, self.expr(s.value, env), env, s)
            return env
        if isinstance(s, ast.AugAssign):
            v = self.expr(s.value, env)
            if isinstance(s.target, ast.Name):
                cur = self.expr(s.target, env)
                if not cur.imm:
                    self.mutate(cur, s, "augmented assignment %s" % u(s).split("=")[0].strip() + "=", stored=v)
                env = dict(env)
                env[s.target.id] = Val(cur.self_o, cur.elem_o | v.elem_o, cur.cont_o | v.cont_o, cur.imm and v.imm)
            else:
                base = self.expr(s.target.value, env)
                self.mutate(base, s, "augmented assignment through %s" % u(s.target), stored=v)
                env = self.taint_root(s.target, v, env)
            return env
        if isinstance(s, ast.Expr):
            self.expr(s.value, env)
            return env
        if isinstance(s, ast.Delete):
            for t in s.targets:
                if isinstance(t, (ast.Subscript, ast.Attribute)):
                    self.mutate(self.expr(t.value, env), s, "del %s" % u(t))
                elif isinstance(t, ast.Name):
                    env = dict(env)
                    env.pop(t.id, None)
            return env
        if isinstance(s, ast.If):
            self.expr(s.test, env)
            a = self.block(s.body, dict(env))
            b = self.block(s.orelse, dict(env))
            return self.joinenv(a, b)
        if isinstance(s, (ast.For, ast.While)):
            cur = dict(env)
            out = None
            for _ in range(4):
                e = dict(cur)
                if isinstance(s, ast.For):
                    it = self.expr(s.iter, e)
                    e = self.assign(s.target, elem(it), e, s)
                else:
                    self.expr(s.test, e)
                self._brk = getattr(self, "_brk", [])
                self._brk.append([])
                e2 = self.block(s.body, e)
                brk = self._brk.pop()
                for b in brk:
                    e2 = self.joinenv(e2, b)
                new = self.joinenv(cur, e2)
                if new == cur:
                    break
                cur = new
            return self.block(s.orelse, cur) if s.orelse else cur
        if isinstance(s, ast.Try):
            e = self.block(s.body, dict(env))
            out = e
            for h in s.handlers:
                henv = self.joinenv(dict(env), e)
                if h.name:
                    henv = dict(henv)
                    henv[h.name] = FRESHV
                out = self.joinenv(out, self.block(h.body, henv))
            if s.orelse and out is not None:
                out = self.block(s.orelse, out)
            if s.finalbody:
                out = self.block(s.finalbody, out if out is not None else dict(env))
            return out
        if isinstance(s, ast.Return):
            v = self.expr(s.value, env) if s.value is not None else Val(imm=True)
            self.ret = v if self.ret is None else self.ret.join(v)
            self.ret_envs.append(env)
            return None
        if isinstance(s, ast.Raise):
            if s.exc:
                self.expr(s.exc, env)
            return None
        if isinstance(s, (ast.Break, ast.Continue)):
            if getattr(self, "_brk", None):
                self._brk[-1].append(env)
            return None
        if isinstance(s, (ast.Pass, ast.Import, ast.ImportFrom, ast.Global, ast.Nonlocal)):
            return env
        if isinstance(s, (ast.FunctionDef, ast.AsyncFunctionDef, ast.ClassDef)):
            env = dict(env)
            env[s.name] = FRESHV
            if isinstance(s, ast.FunctionDef):
                # nested function: analyse its body in the enclosing environment (closures see the outer names)
                inner = dict(env)
                for x in s.args.args:
                    inner[x.arg] = origin_val("PARAM:" + x.arg)
                saved = self.ret
                self.block(s.body, inner)
                self.ret = saved
            return env
        if isinstance(s, ast.With):
            for it in s.items:
                v = self.expr(it.context_expr, env)
                if it.optional_vars is not None:
                    env = self.assign(it.optional_vars, v, env, s)
            return self.block(s.body, env)
        if isinstance(s, ast.Assert):
            self.expr(s.test, env)
            return env
        if isinstance(s, ast.Match):
            subj = self.expr(s.subject, env)
            out = None
            exhaustive = False
            for c in s.cases:
                e = dict(env)
                for n in ast.walk(c.pattern):
                    for nm in ([n.name] if isinstance(n, (ast.MatchAs, ast.MatchStar)) and n.name else []) + ([n.rest] if isinstance(n, ast.MatchMapping) and n.rest else []):
                        e[nm] = elem(subj).join(subj)
                if c.guard is not None:
                    self.expr(c.guard, e)
                if isinstance(c.pattern, ast.MatchAs) and c.pattern.pattern is None and c.guard is None:
                    exhaustive = True
                out = self.joinenv(out, self.block(c.body, e))
            return out if exhaustive else self.joinenv(out, dict(env))
        raise Inconclusive("EFF: statement kind %s in %s" % (type(s).__name__, self.f.qual))

    def assign(self, t, v, env, node):
        if isinstance(t, ast.Name):
            env = dict(env)
            env[t.id] = v
            if t.id in self.globals_here and self._declared_global(t.id):
                self.mutate(Val(["GLOBAL:%s.%s" % (self.f.mod, t.id)]), node, "rebinding of module global %s" % t.id, stored=v)
            return env
        if isinstance(t, (ast.Tuple, ast.List)):
            for e in t.elts:
                env = self.assign(e.value if isinstance(e, ast.Starred) else e, elem(v), env, node)
            return env
        if isinstance(t, (ast.Subscript, ast.Attribute)):
            base = self.expr(t.value, env)
            if isinstance(t, ast.Subscript):
                self.expr(t.slice, env)
            self.mutate(base, node, "store to %s" % u(t), stored=v)
            return self.taint_root(t, v, env)
        if isinstance(t, ast.Starred):
            return self.assign(t.value, v, env, node)
        raise Inconclusive("EFF: assignment target %s" % type(t).__name__)

    def _declared_global(self, name):
        return any(isinstance(n, ast.Global) and name in n.names for n in ast.walk(self.f.node))

    def taint_root(self, target, v, env, extra_depth=0):
        """after `root.a[b] = v` the object bound to root contains v (at depth = number of links)"""
        r = root_name(target)
        if r is not None and r in env:
            depth = extra_depth
            t = target
            while isinstance(t, (ast.Attribute, ast.Subscript)):
                depth += 1
                t = t.value
            cur = env[r]
            env = dict(env)
            if depth <= 1:
                env[r] = Val(cur.self_o, cur.elem_o | v.self_o, cur.cont_o | v.below, False, cur.callee)
            else:
                env[r] = Val(cur.self_o, cur.elem_o, cur.cont_o | v.reach, False, cur.callee)
        return env

    def mutate(self, target, node, what, stored=None, via=None):
        self.events.append(Event(self.f.qual, node, what, target, stored, via))

    # ---- expressions
    def expr(self, e, env):
        if e is None:
            return IMMV
        if isinstance(e, ast.Name):
            if e.id in env:
                return env[e.id]
            if e.id in self.globals_here:
                o = "GLOBAL:%s.%s" % (self.f.mod, e.id)
                self.reads_globals.add(o)
                return origin_val(o)
            imp = self.ix.imports.get(self.f.mod, {}).get(e.id)
            if imp and imp[2] >= 1 and imp[0] in self.eff.mutable_globals and imp[1] in self.eff.mutable_globals[imp[0]]:
                o = "GLOBAL:%s.%s" % (imp[0], imp[1])
                self.reads_globals.add(o)
                return origin_val(o)
            q = self.ix.resolve_name(self.f.mod, e.id)
            if q:
                return Val(imm=True, callee=q)
            return Val(imm=True)      # builtins, module aliases, constants: nothing of ours is reachable
        if isinstance(e, ast.Constant):
            return IMMV
        if isinstance(e, ast.Attribute):
            b = self.expr(e.value, env)
            if isinstance(e.value, ast.Name) and e.value.id in LIB_ROOTS and e.value.id not in env:
                return Val(imm=True)
            if e.attr in self.eff.props and not (isinstance(e.value, ast.Name) and e.value.id in LIB_ROOTS):
                return self.apply_summary(self.eff.props[e.attr].qual, [b], e)
            if isinstance(e.value, ast.Name) and e.value.id == "self" and b.self_o == frozenset(["PARAM:self"]):
                v = origin_val("FIELD:self." + e.attr)      # first-level field sensitivity for the receiver
            else:
                v = elem(b)
            if e.attr in self.eff.immutable_fields:
                v = Val(v.self_o, v.elem_o, v.cont_o, True)
            if b.callee and b.callee in self.ix.classes:
                q = "%s.%s" % (b.callee, e.attr)
                if q in self.ix.funcs:
                    return Val(imm=True, callee=q)
            return v
        if isinstance(e, ast.Subscript):
            b = self.expr(e.value, env)
            self.expr(e.slice, env)
            if isinstance(e.slice, ast.Slice):
                return shallow(b)
            # library model (networkx): G.nodes[n] / G.edges[u, v] / G.adj[n] are attribute dictionaries the graph created itself - never an
            # object the caller passed in (add_node(n, **attrs) copies the attributes into it)
            if isinstance(e.value, ast.Attribute) and e.value.attr in ("nodes", "edges", "adj", "succ", "pred", "_node", "_adj") \
                    and self.expr(e.value.value, env).self_o == frozenset([FRESH]):
                return Val()
            return elem(b)
        if isinstance(e, ast.Slice):
            for x in (e.lower, e.upper, e.step):
                if x is not None:
                    self.expr(x, env)
            return IMMV
        if isinstance(e, (ast.List, ast.Tuple, ast.Set)):
            vals, spread = [], []
            for x in e.elts:
                v = self.expr(x.value if isinstance(x, ast.Starred) else x, env)
                (spread if isinstance(x, ast.Starred) else vals).append(v)
            return container(vals, spread)
        if isinstance(e, ast.Dict):
            vals, spread = [], []
            for k, x in zip(e.keys, e.values):
                v = self.expr(x, env)
                if k is None:
                    spread.append(v)
                else:
                    self.expr(k, env)
                    vals.append(v)
            return container(vals, spread)
        if isinstance(e, (ast.ListComp, ast.SetComp, ast.GeneratorExp, ast.DictComp)):
            env2 = dict(env)
            for g in e.generators:
                it = self.expr(g.iter, env2)
                env2 = self.assign(g.target, elem(it), env2, e)
                for c in g.ifs:
                    self.expr(c, env2)
            if isinstance(e, ast.DictComp):
                self.expr(e.key, env2)
                v = self.expr(e.value, env2)
            else:
                v = self.expr(e.elt, env2)
            return container([v])
        if isinstance(e, ast.Call):
            return self.call(e, env)
        if isinstance(e, ast.BinOp):
            a = self.expr(e.left, env)
            b = self.expr(e.right, env)
            if isinstance(e.op, ast.Mod) and isinstance(e.left, (ast.Constant, ast.JoinedStr)):
                return IMMV
            # list + list etc: fresh shell, contents of both
            return Val([FRESH], a.elem_o | b.elem_o, a.cont_o | b.cont_o, a.imm and b.imm)
        if isinstance(e, ast.UnaryOp):
            a = self.expr(e.operand, env)
            return IMMV if isinstance(e.op, ast.Not) else Val([FRESH], a.elem_o, a.cont_o, a.imm)
        if isinstance(e, ast.BoolOp):
            v = None
            for x in e.values:
                w = self.expr(x, env)
                v = w if v is None else v.join(w)
            return v
        if isinstance(e, ast.Compare):
            self.expr(e.left, env)
            for x in e.comparators:
                self.expr(x, env)
            return IMMV
        if isinstance(e, ast.IfExp):
            self.expr(e.test, env)
            return self.expr(e.body, env).join(self.expr(e.orelse, env))
        if isinstance(e, ast.Starred):
            return self.expr(e.value, env)
        if isinstance(e, (ast.JoinedStr, ast.FormattedValue)):
            for x in ast.iter_child_nodes(e):
                if isinstance(x, ast.expr):
                    self.expr(x, env)
            return IMMV
        if isinstance(e, ast.Lambda):
            return FRESHV
        if isinstance(e, ast.NamedExpr):
            return self.expr(e.value, env)
        if isinstance(e, (ast.Yield, ast.YieldFrom)):
            # generator body: the yielded value is evaluated (its effects are attributed to the call - an over-approximation: they happen
            # when the generator is advanced); what `send` passes in is unknown
            if e.value is not None:
                self.expr(e.value, env)
            return FRESHV
        if isinstance(e, ast.Await):
            raise Inconclusive("EFF: %s in %s" % (type(e).__name__, self.f.qual))
        raise Inconclusive("EFF: expression kind %s in %s" % (type(e).__name__, self.f.qual))

    def call(self, e, env):
        self._npos = len(e.args)
        args = [self.expr(a.value if isinstance(a, ast.Starred) else a, env) for a in e.args]
        kws = [self.expr(k.value, env) for k in e.keywords]
        allargs = args + kws
        f = e.func
        if isinstance(f, ast.Attribute):
            recv = self.expr(f.value, env)
            lib = isinstance(f.value, ast.Name) and f.value.id in LIB_ROOTS and f.value.id not in env
            base = u(f.value)
            if lib or (isinstance(f.value, ast.Attribute) and root_name(f.value) in LIB_ROOTS and root_name(f.value) not in env):
                name = base + "." + f.attr
                if name in ("copy.deepcopy",):
                    return FRESHV
                return self.lib_call(name, allargs, e)
            if base == "copy" and "copy" not in env:
                if f.attr == "deepcopy":
                    out = Val(imm=allargs[0].imm if allargs else False)
                    # a memo argument that is not an empty display may already map objects of the original to themselves: whatever it
                    # registers is shared, not copied - the result is no fresher than the original
                    memo = e.args[1] if len(e.args) > 1 else next((k.value for k in e.keywords if k.arg == "memo"), None)
                    if memo is not None and not (isinstance(memo, ast.Dict) and not memo.keys) and allargs:
                        return shallow(allargs[0]).join(allargs[0])
                    # a class of the package that customises copying decides what deepcopy returns for its instances
                    for hook in ("__deepcopy__", "__reduce__", "__reduce_ex__", "__getstate__", "__copy__"):
                        for hq, hf in self.ix.funcs.items():
                            if hf.name == hook and hf.cls and allargs and not allargs[0].imm and hook in ("__deepcopy__",):
                                out = out.join(self.apply_summary(hq, [allargs[0], FRESHV], e))
                            elif hf.name == hook and hf.cls and allargs and not allargs[0].imm:
                                out = out.join(Val([FRESH], allargs[0].below, allargs[0].below))
                    return out
                if f.attr == "copy":
                    return shallow(allargs[0]) if allargs else FRESHV
            # method on a package object resolved by class of `self`
            if isinstance(f.value, ast.Name) and f.value.id == "self" and self.f.cls:
                q = self._method(self.f.cls, f.attr)
                if q:
                    return self.apply_summary(q, [recv] + args, e, kws)
            if isinstance(f.value, ast.Call) and isinstance(f.value.func, ast.Name) and f.value.func.id == "super":
                return FRESHV
            if f.attr in MUT_METHODS:
                stored = None
                for a in allargs:
                    stored = a if stored is None else stored.join(a)
                if stored is not None and f.attr in ("extend", "update", "extendleft", "difference_update", "intersection_update", "symmetric_difference_update",
                                                     "add_nodes_from", "add_edges_from"):
                    stored = elem(stored)       # the elements of the argument are stored, not the argument itself
                self.mutate(recv, e, "call of mutating method .%s()" % f.attr, stored=stored)
                if stored is not None:
                    new = self.taint_root(f.value, stored, env, extra_depth=1)
                    env.clear()
                    env.update(new)
                if f.attr in ("pop", "setdefault", "popitem", "popleft"):
                    return elem(recv)
                return IMMV
            if f.attr in ("items", "values", "keys", "copy", "getChildren", "flatten", "astype", "tolist", "nodes", "data", "edges", "_asdict",
                          "union", "intersection", "difference", "symmetric_difference", "most_common"):
                return shallow(recv)
            if f.attr == "get":
                v = elem(recv)
                for a in allargs[1:]:
                    v = v.join(a)
                return v
            if f.attr in VIEW_METHODS:
                return Val(recv.self_o, recv.elem_o, recv.cont_o)
            if f.attr in STR_METHODS:
                return IMMV
            # unique method name in the package -> use its summary (receiver unknown type)
            cands = [q for q, fn in self.ix.funcs.items() if fn.cls and fn.name == f.attr and not fn.name.startswith("__")]
            if len(cands) == 1:
                return self.apply_summary(cands[0], [recv] + args, e, kws)
            return Val([FRESH], recv.below, recv.below)      # unknown pure method of an object: may expose its content
        if isinstance(f, ast.Name):
            if f.id in env:
                # calling a local value: possibly a program object (the unique __call__ of the package) or any callable
                v = env[f.id]
                out = FRESHV
                if v.callee and v.callee in self.ix.funcs:
                    return self.apply_summary(v.callee, args, e, kws)
                calls = [q for q, fn in self.ix.funcs.items() if fn.name == "__call__"]
                if len(calls) == 1 and not v.imm:
                    out = out.join(self.apply_summary(calls[0], [v] + args, e, kws))
                return out
            if f.id == "deepcopy":
                return FRESHV
            if f.id in SHALLOW_CALLS:
                return container([], allargs)
            if f.id in IMM_CALLS:
                return IMMV
            if f.id in ("getattr",):
                return elem(allargs[0]) if allargs else FRESHV
            if f.id in ("setattr", "delattr") and allargs:
                self.mutate(allargs[0], e, "%s()" % f.id, stored=allargs[2] if len(allargs) > 2 else None)
                return IMMV
            if f.id == "next" and allargs:
                return elem(allargs[0])
            q = self.ix.resolve_name(self.f.mod, f.id)
            if q in self.ix.funcs:
                return self.apply_summary(q, args, e, kws)
            if q in self.ix.classes:
                init = q + ".__init__"
                if init in self.ix.funcs:
                    self.apply_summary(init, [FRESHV] + args, e, kws)
                return container([a for a in allargs if not a.imm])
            imp = self.ix.imports.get(self.f.mod, {}).get(f.id)
            return self.lib_call(f.id, allargs, e)
        # call of a call / subscript etc.
        self.expr(f, env)
        return FRESHV

    def _method(self, clsq, name):
        q = "%s.%s" % (clsq, name)
        if q in self.ix.funcs:
            return q
        return None

    def lib_call(self, name, args, node):
        """library model: calls into NumPy/SymPy/networkx/antlr4/os do not mutate their arguments (trusted list of exceptions)"""
        short = name.split(".")[-1]
        if short in ("insert", "append", "delete", "concatenate", "array", "asarray", "zeros", "ones", "empty", "copy", "deepcopy"):
            if short == "asarray" and args:
                return Val(args[0].self_o, args[0].elem_o, args[0].cont_o)
            return container([], args[:self._npos] if getattr(self, "_npos", None) is not None else args)
        if short in ("fill_diagonal", "put", "place", "copyto", "shuffle", "putmask", "put_along_axis") and args:
            self.mutate(args[0], node, "call of in-place library function %s()" % name)
            return IMMV
        if short in ("reshape", "ravel", "squeeze", "transpose", "atleast_2d", "atleast_1d", "real_if_close", "asanyarray", "ascontiguousarray") and args:
            return Val(args[0].self_o, args[0].elem_o, args[0].cont_o)
        return FRESHV

    def apply_summary(self, q, args, node, kws=()):
        s = self.eff.summ.get(q)
        if s is None:
            return FRESHV
        fn = self.ix.funcs[q]
        names = fn.params
        bind = {}
        for i, a in enumerate(args):
            if i < len(names):
                bind["PARAM:" + names[i]] = a
        if isinstance(node, ast.Call):
            for k, v in zip(node.keywords, kws):
                if k.arg is not None:
                    bind["PARAM:" + k.arg] = v
                elif fn.node.args.kwarg is not None:
                    bind["PARAM:" + fn.node.args.kwarg.arg] = Val([FRESH], v.elem_o, v.cont_o)
        for o, why in s.mutates.items():
            b = base_origin(o)
            inner = o.startswith("IN:")
            if b.startswith("PARAM:"):
                if b in bind:
                    tgt = Val(bind[b].below) if inner else bind[b]
                    self.mutate(tgt, node, "call of %s, which mutates %sits parameter %s (%s)" % (q, "something inside " if inner else "", b[6:], why), via=q)
            elif b.startswith("GLOBAL:"):
                self.mutate(Val([o]), node, "call of %s, which mutates %s%s (%s)" % (q, "something inside " if inner else "", b[7:], why), via=q)
            elif b.startswith("FIELD:self."):
                r = bind.get("PARAM:self")
                if r is not None and r.self_o == frozenset(["PARAM:self"]):
                    self.mutate(Val([o]), node, "call of %s, which mutates %s%s (%s)" % (q, "something inside " if inner else "", b[6:], why), via=q)
                elif r is not None:
                    self.mutate(Val(r.below), node, "call of %s, which mutates field %s of its receiver (%s)" % (q, b[11:], why), via=q)
        for g in s.reads_globals:
            self.reads_globals.add(g)
        if s.ret is None:
            return IMMV

        def sub(origins, layer):
            out = set()
            for o in origins:
                b = base_origin(o)
                if b.startswith("PARAM:"):
                    if b not in bind:
                        out.add(FRESH)
                    elif o.startswith("IN:"):
                        out |= bind[b].below
                    else:
                        out |= bind[b].self_o
                elif b.startswith("FIELD:self."):
                    r = bind.get("PARAM:self")
                    if r is not None and r.self_o == frozenset(["PARAM:self"]):
                        out.add(o)
                    elif r is not None:
                        out |= r.below
                    else:
                        out.add(FRESH)
                else:
                    out.add(o)
            return out

        return Val(sub(s.ret.self_o, 0) or [FRESH], sub(s.ret.elem_o, 1) or [FRESH], sub(s.ret.cont_o, 2) or [FRESH], s.ret.imm)
