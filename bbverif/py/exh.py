"""EXH - grammar-alternative exhaustiveness (DESIGN 4.5 EXH): child-presence profiles from the grammar, dispatch chains in the code."""
import ast

from ..report import Inconclusive
from ..gram.g4 import Ref, Seq, Alt, Rep
from .index import u


def profiles(node):
    """set of frozensets of child names (rule and token names) that a complete parse of `node` can contain"""
    if isinstance(node, Ref):
        return {frozenset([node.name])}
    if isinstance(node, Seq):
        acc = {frozenset()}
        for it in node.items:
            acc = {a | b for a in acc for b in profiles(it)}
        return acc
    if isinstance(node, Alt):
        out = set()
        for a in node.alts:
            out |= profiles(a)
        return out
    if isinstance(node, Rep):
        p = profiles(node.item)
        if node.kind == "?":
            return p | {frozenset()}
        cl = set(p)
        changed = True
        while changed:
            changed = False
            for a in list(cl):
                for b in p:
                    if a | b not in cl:
                        cl.add(a | b)
                        changed = True
        return cl | ({frozenset()} if node.kind == "*" else set())
    raise Inconclusive("profiles: unexpected grammar node %r" % (node,))


def names_in(node):
    if isinstance(node, Ref):
        return {node.name}
    if isinstance(node, Seq):
        return set().union(*[names_in(i) for i in node.items]) if node.items else set()
    if isinstance(node, Alt):
        return set().union(*[names_in(a) for a in node.alts]) if node.alts else set()
    if isinstance(node, Rep):
        return names_in(node.item)
    return set()


def innermost_with(node, names):
    """innermost Alt / Rep node whose subtree mentions all of `names`"""
    best = None

    def rec(n):
        nonlocal best
        if not names <= names_in(n):
            return
        if isinstance(n, (Alt, Rep)) or best is None:
            best = n
        kids = n.items if isinstance(n, Seq) else n.alts if isinstance(n, Alt) else [n.item] if isinstance(n, Rep) else []
        for k in kids:
            rec(k)
    rec(node)
    return best


def body_of(G, ctxclass):
    """grammar body for a context class name: rule body or the labelled alternative"""
    base = ctxclass[:-7]
    rn = base[0].lower() + base[1:]
    if rn in G.R:
        return G.R[rn].body, rn
    for r in G.prules:
        for alt, lab in zip(r.body.alts, r.body.labels):
            if lab == base:
                return alt, "%s#%s" % (r.name, lab)
    return None, None


def accessor_test(test):
    """(receiver source, accessor name, polarity) for `X.a()`, `X.a() is not None`, `not X.a()`, `X.a() is None`"""
    pol = True
    t = test
    if isinstance(t, ast.UnaryOp) and isinstance(t.op, ast.Not):
        pol = False
        t = t.operand
    if isinstance(t, ast.Compare) and len(t.ops) == 1 and isinstance(t.comparators[0], ast.Constant) and t.comparators[0].value is None:
        if isinstance(t.ops[0], ast.IsNot):
            t = t.left
        elif isinstance(t.ops[0], ast.Is):
            pol = not pol
            t = t.left
        else:
            return None
    if isinstance(t, ast.Call) and isinstance(t.func, ast.Attribute) and not t.args and not t.keywords:
        return u(t.func.value), t.func.attr, pol
    return None


def terminates(stmts):
    return bool(stmts) and isinstance(stmts[-1], (ast.Return, ast.Raise, ast.Continue, ast.Break))


def chains(stmts):
    """dispatch chains in a statement list: (a) if / elif ... [else]; (b) runs of consecutive `if <accessor test>: ... return/raise` statements.
    yields (list of (test_node, body), else_body or None, kind, first_stmt)"""
    i = 0
    while i < len(stmts):
        s = stmts[i]
        if isinstance(s, ast.If) and accessor_test(s.test):
            # (a) elif chain
            arms = [(s.test, s.body)]
            cur = s
            while len(cur.orelse) == 1 and isinstance(cur.orelse[0], ast.If) and accessor_test(cur.orelse[0].test):
                cur = cur.orelse[0]
                arms.append((cur.test, cur.body))
            els = cur.orelse or None
            if len(arms) == 1 and terminates(s.body) and not s.orelse:
                # (b) run of early-exit ifs on the same receiver
                recv = accessor_test(s.test)[0]
                j = i + 1
                while j < len(stmts) and isinstance(stmts[j], ast.If) and accessor_test(stmts[j].test) and accessor_test(stmts[j].test)[0] == recv \
                        and terminates(stmts[j].body) and not stmts[j].orelse:
                    arms.append((stmts[j].test, stmts[j].body))
                    j += 1
                yield arms, stmts[j:], "early-exit", s
                i = j
                continue
            yield arms, els, "elif", s
        i += 1


def all_blocks(fn):
    """every statement list inside fn (not descending into nested defs)"""
    out = [fn.body]
    todo = list(fn.body)
    while todo:
        s = todo.pop()
        if isinstance(s, (ast.FunctionDef, ast.AsyncFunctionDef, ast.ClassDef)):
            continue
        for field in ("body", "orelse", "finalbody"):
            sub = getattr(s, field, None)
            if isinstance(sub, list) and sub and isinstance(sub[0], ast.stmt):
                elif_cont = field == "orelse" and isinstance(s, ast.If) and len(sub) == 1 and isinstance(sub[0], ast.If)
                if not elif_cont:
                    out.append(sub)
                todo.extend(sub)
        if isinstance(s, ast.Try):
            for h in s.handlers:
                out.append(h.body)
                todo.extend(h.body)
    return out
