"""ORD - unordered-collection flow (DESIGN 4.5 ORD).

Taint = (kind, cls, src, binding):
  kind     set (unordered collection) | seq (materialised in arbitrary order) | map (dict filled in arbitrary order) | callable (positional order arbitrary)
  cls      'str' (elements hash from strings: order depends on PYTHONHASHSEED) | 'int' (seed independent, but not value order)
  src      text/site of the unordered source
  binding  id of the one local binding that materialised the order (for the 'paired' exception)
Sinks are the points where the arbitrary order becomes observable.
"""
import ast

from ..report import Inconclusive
from .index import u, root_name

INT_HINTS = {"modes": "mode numbers are integers (exitStatement checks isinstance(m, (int, np.integer)))",
             "_modes": "union of mode numbers", "regrefs": "register numbers int(str(sym)[1:])", "dependencies": "modes and register numbers",
             "mode": "mode number", "wires": "mode numbers"}
SANITISERS = {"sorted", "min", "max", "sum", "len", "bool", "any", "all", "set", "frozenset", "isinstance", "hash", "id", "type", "Counter"}
MATERIALISE = {"list", "tuple", "iter", "reversed", "deque"}
NP_SEQ = {"array", "asarray", "insert", "append", "concatenate", "stack", "hstack", "vstack", "fromiter"}


class Taint:
    __slots__ = ("kind", "cls", "src", "binding", "line")

    def __init__(self, kind, cls, src, binding=None, line=0):
        self.kind, self.cls, self.src, self.binding, self.line = kind, cls, src, binding, line

    def as_(self, kind, binding=None):
        return Taint(kind, self.cls, self.src, binding if binding is not None else self.binding, self.line)

    def __repr__(self):
        return "%s<%s> from %s" % (self.kind, self.cls, self.src)


class Finding:
    def __init__(self, f, node, sink, taint, severity="sink"):
        self.f, self.node, self.sink, self.taint, self.severity = f, node, sink, taint, severity

    @property
    def text(self):
        return " ".join(u(self.node).split())[:140]


def hint_cls(expr):
    """element class of a collection built from `expr` (explicit table, default 'str' = most hostile)"""
    for n in ast.walk(expr):
        name = n.attr if isinstance(n, ast.Attribute) else n.id if isinstance(n, ast.Name) else (n.value if isinstance(n, ast.Constant) and isinstance(n.value, str) else None)
        if name in INT_HINTS:
            return "int"
    return "str"


class Ord:
    def __init__(self, ix):
        self.ix = ix
        self.ret = {}          # qual -> Taint or None  (what the function / property returns)
        self.findings = {}     # qual -> [Finding]
        self.sources = {}      # qual -> [(line, text)] unordered sources seen
        self.set_fields = {}   # attribute name -> cls, for fields initialised as sets in some __init__
        for q, f in ix.funcs.items():
            if f.name == "__init__":
                for n in ast.walk(f.node):
                    if isinstance(n, ast.Assign) and len(n.targets) == 1 and isinstance(n.targets[0], ast.Attribute) and u(n.targets[0].value) == "self":
                        v = n.value
                        if isinstance(v, (ast.Set, ast.SetComp)) or (isinstance(v, ast.Call) and u(v.func) in ("set", "frozenset")):
                            self.set_fields[n.targets[0].attr] = "int" if n.targets[0].attr in INT_HINTS else "str"
        self.props = ix.properties()

    def solve(self):
        for _ in range(4):
            before = {q: (t.kind, t.cls) if t else None for q, t in self.ret.items()}
            for q, f in self.ix.funcs.items():
                r = _Run(self, f)
                r.go()
                self.ret[q] = r.ret
                self.findings[q] = r.findings
                self.sources[q] = sorted(set(r.sources))
            after = {q: (t.kind, t.cls) if t else None for q, t in self.ret.items()}
            if before == after:
                return
        raise Inconclusive("ORD summaries did not reach a fixpoint")


class _Run:
    def __init__(self, o, f):
        self.o, self.f, self.ix = o, f, o.ix
        self.findings = []
        self.ret = None
        self.nbind = 0
        self.in_raise = 0
        self.loopvars = []
        self.sources = []
        self.single_texts = set()

    def src(self, kind, cls, text, line):
        self.sources.append((line, text))
        return Taint(kind, cls, text, line=line)

    def go(self):
        self.block(self.f.node.body, {})

    def report(self, node, sink, taint, severity=None):
        sev = severity or ("message" if self.in_raise else "sink")
        if taint.cls == "int" and sev == "sink":
            sev = "sink-int"
        self.findings.append(Finding(self.f, node, sink, taint, sev))

    # ---------------------------------------------------------------- statements
    def block(self, stmts, env):
        for s in stmts:
            env = self.stmt(s, env)
        return env

    def join(self, a, b):
        out = dict(a)
        for k, v in b.items():
            if out.get(k) is None:
                out[k] = v
        for k in list(out):
            if k not in b and k in a:
                pass
        return out

    def stmt(self, s, env):
        if isinstance(s, ast.Assign):
            t = self.ev(s.value, env)
            for tg in s.targets:
                env = self.assign(tg, t, env, s, s.value)
            return env
        if isinstance(s, ast.AnnAssign) and s.value is not None:
            return self.assign(s.target, self.ev(s.value, env), env, s, s.value)
        if isinstance(s, ast.AugAssign):
            t = self.ev(s.value, env)
            if isinstance(s.target, ast.Name):
                cur = env.get(s.target.id)
                if t is not None and cur is None and t.kind == "set" and isinstance(s.op, (ast.BitOr, ast.BitAnd, ast.BitXor, ast.Sub)):
                    env = dict(env)
                    env[s.target.id] = t
                elif t is not None and t.kind in ("seq", "map") and isinstance(s.op, ast.Add):
                    env = dict(env)
                    env[s.target.id] = t.as_("seq")
            elif t is not None and t.kind in ("seq", "map", "callable"):
                self.report(s, "escape: arbitrarily ordered value stored into %s" % u(s.target), t)
            return env
        if isinstance(s, ast.Expr):
            self.ev(s.value, env)
            sv = self.setvals_marker(s.value)
            if sv:
                env = dict(env)
                env[sv[0]] = self.src("setvals", sv[1], "%s holds sets as values (`%s`)" % (sv[0], " ".join(u(s.value).split())[:50]), s.lineno)
            # receiver side effects of mutating methods
            v = s.value
            if isinstance(v, ast.Call) and isinstance(v.func, ast.Attribute) and v.func.attr in ("append", "extend", "insert", "add", "update", "add_node", "add_edge", "write", "appendleft"):
                argt = None
                for a in list(v.args) + [k.value for k in v.keywords]:
                    argt = argt or self.ev_quiet(a, env)
                lv = [x for x in self.loopvars if x[1] is not None]
                carrier = argt if (argt is not None and argt.kind in ("seq", "map", "callable")) else (lv[-1][1] if lv else None)
                if carrier is not None:
                    r = v.func.value
                    if isinstance(r, ast.Name):
                        kind = "seq" if v.func.attr in ("append", "extend", "insert", "appendleft") else ("set" if v.func.attr == "add" else "map")
                        if v.func.attr == "update" and env.get(r.id) is not None and env[r.id].kind == "set":
                            kind = "set"
                        if kind != "set" or env.get(r.id) is None:
                            env = dict(env)
                            env[r.id] = carrier.as_(kind) if env.get(r.id) is None or env[r.id].kind == "set" else env[r.id]
                    elif v.func.attr == "write":
                        self.report(s, "output written inside a loop over an arbitrarily ordered collection", carrier)
                    elif argt is not None and argt.kind in ("seq", "map", "callable") and root_name(r) in ("self",) + tuple(self.f.params):
                        self.report(s, "escape: arbitrarily ordered value stored into %s" % u(r), argt)
                    elif lv and isinstance(r, ast.Subscript) and isinstance(r.value, ast.Name) and v.func.attr in ("append", "extend", "insert"):
                        # d[k].append(x) inside a loop over an unordered collection: per-key lists are filled in arbitrary order only if k is not the loop element
                        pass
            return env
        if isinstance(s, ast.If):
            # singleton guard:  if len(X) > 1: raise
            g = self.singleton_guard(s)
            self.ev(s.test, env)
            a = self.block(s.body, dict(env))
            b = self.block(s.orelse, dict(env))
            out = self.join(a, b)
            if g and g in out:
                out = dict(out)
                out[g] = None
            return out
        if isinstance(s, ast.For):
            it = self.ev(s.iter, env)
            env = dict(env)
            carried = it if it is not None and it.kind in ("set", "seq", "map") else None
            for n in ast.walk(s.target):
                if isinstance(n, ast.Name):
                    env[n.id] = None
            sv = self.setvals_iter(s.iter, env)
            if sv is not None:
                tgt = s.target.elts[-1] if isinstance(s.target, ast.Tuple) else s.target
                if isinstance(tgt, ast.Name):
                    env[tgt.id] = Taint("set", sv.cls, sv.src, line=sv.line)
            self.loopvars.append((s, carried))
            if carried is not None:
                self.check_loop_body(s, carried, env)
            env = self.block(s.body, env)
            env = self.block(s.body, env)     # second round: taints created in the body reach earlier statements
            self.loopvars.pop()
            return self.block(s.orelse, env)
        if isinstance(s, ast.While):
            self.ev(s.test, env)
            env = self.block(s.body, dict(env))
            env = self.block(s.body, env)
            return self.block(s.orelse, env)
        if isinstance(s, ast.Try):
            e = self.block(s.body, dict(env))
            for h in s.handlers:
                e = self.join(e, self.block(h.body, dict(env)))
            e = self.block(s.orelse, e)
            return self.block(s.finalbody, e)
        if isinstance(s, ast.Return):
            if s.value is not None:
                t = self.ev(s.value, env)
                if t is not None:
                    if t.kind in ("seq", "map", "callable"):
                        self.report(s, "escape: arbitrarily ordered %s returned" % t.kind, t)
                    self.ret = self.ret or t
            return env
        if isinstance(s, ast.Raise):
            self.in_raise += 1
            if s.exc is not None:
                self.ev(s.exc, env)
            self.in_raise -= 1
            return env
        if isinstance(s, ast.With):
            for it in s.items:
                self.ev(it.context_expr, env)
            return self.block(s.body, env)
        if isinstance(s, (ast.FunctionDef, ast.AsyncFunctionDef)):
            inner = dict(env)
            for a in s.args.args:
                inner[a.arg] = None
            saved = self.ret
            self.block(s.body, inner)
            self.ret = saved
            return env
        if isinstance(s, ast.Delete):
            return env
        if isinstance(s, ast.Match):
            self.ev(s.subject, env)
            out = dict(env)
            for c in s.cases:
                out = self.join(out, self.block(c.body, dict(env)))
            return out
        if isinstance(s, ast.Assert):
            self.ev(s.test, env)
            return env
        return env

    def setvals_marker(self, e):
        """X.setdefault(k, set()) [.add(..)]  ->  (X, cls)"""
        for n in ast.walk(e):
            if isinstance(n, ast.Call) and isinstance(n.func, ast.Attribute) and n.func.attr == "setdefault" and isinstance(n.func.value, ast.Name) and len(n.args) == 2:
                d = n.args[1]
                if isinstance(d, (ast.Set, ast.SetComp)) or (isinstance(d, ast.Call) and u(d.func) in ("set", "frozenset")):
                    return n.func.value.id, hint_cls(e)
        return None

    def singleton_guard(self, s):
        t = s.test
        if isinstance(t, ast.Compare) and len(t.ops) == 1 and isinstance(t.left, ast.Call) and u(t.left.func) == "len" and len(t.left.args) == 1 \
                and isinstance(t.left.args[0], (ast.Name, ast.Attribute)) and isinstance(t.comparators[0], ast.Constant):
            c = t.comparators[0].value
            if (isinstance(t.ops[0], ast.Gt) and c == 1) or (isinstance(t.ops[0], ast.GtE) and c == 2) or (isinstance(t.ops[0], ast.NotEq) and c == 1):
                if s.body and isinstance(s.body[-1], ast.Raise) and not s.orelse:
                    if isinstance(t.left.args[0], ast.Name):
                        return t.left.args[0].id
                    # the guarded collection is written out (x.free_symbols): from here on that expression denotes at most one element
                    self.single_texts.add(" ".join(u(t.left.args[0]).split()))
        return None

    def setvals_iter(self, it, env):
        if isinstance(it, ast.Call) and isinstance(it.func, ast.Attribute) and it.func.attr in ("items", "values") and isinstance(it.func.value, ast.Name):
            t = env.get(it.func.value.id)
            if t is not None and t.kind == "setvals":
                return t
        return None

    def assign(self, tg, t, env, node, value):
        if isinstance(tg, ast.Name):
            env = dict(env)
            if t is not None and t.kind in ("seq", "map") and t.binding is None:
                self.nbind += 1
                t = t.as_(t.kind, binding=(self.f.qual, tg.id, self.nbind))
            env[tg.id] = t
            return env
        if isinstance(tg, (ast.Tuple, ast.List)):
            for e in tg.elts:
                env = self.assign(e, None, env, node, value)
            return env
        if isinstance(tg, (ast.Attribute, ast.Subscript)):
            if t is not None and t.kind in ("seq", "map", "callable"):
                r = root_name(tg)
                if isinstance(tg, ast.Subscript) and isinstance(tg.value, ast.Name) and r not in ("self",) + tuple(self.f.params):
                    # local container
                    env = dict(env)
                    if env.get(r) is None:
                        env[r] = t.as_("map")
                else:
                    self.report(node, "escape: arbitrarily ordered %s stored into %s" % (t.kind, u(tg)), t)
            elif isinstance(tg, ast.Subscript) and isinstance(tg.value, ast.Name) and (isinstance(value, (ast.Set, ast.SetComp)) or (isinstance(value, ast.Call) and u(value.func) in ("set", "frozenset"))):
                env = dict(env)
                env[tg.value.id] = self.src("setvals", hint_cls(value) if not isinstance(value, ast.Call) or value.args else "str", "%s holds sets as values" % tg.value.id, node.lineno)
            elif isinstance(tg, ast.Subscript) and isinstance(tg.value, ast.Name):
                lv = [x for x in self.loopvars if x[1] is not None]
                if lv and env.get(tg.value.id) is None and tg.value.id not in self.f.params:
                    env = dict(env)
                    env[tg.value.id] = lv[-1][1].as_("map")
            return env
        return env

    def check_loop_body(self, loop, taint, env):
        """order-sensitive effects of a `for` over an unordered / arbitrarily ordered collection"""
        assigned = {}
        for n in ast.walk(ast.Module(body=loop.body, type_ignores=[])):
            if isinstance(n, (ast.Break, ast.Return)):
                self.report(n, "`%s` inside a loop over an arbitrarily ordered collection (picks an arbitrary element)" % type(n).__name__.lower(), taint)
            if isinstance(n, ast.Assign) and len(n.targets) == 1 and isinstance(n.targets[0], ast.Name):
                name = n.targets[0].id
                reads = {x.id for x in ast.walk(n.value) if isinstance(x, ast.Name)}
                if name in reads and name not in {x.id for x in ast.walk(loop.target) if isinstance(x, ast.Name)}:
                    self.report(n, "loop-carried dependency `%s` in a loop over an arbitrarily ordered collection" % " ".join(u(n).split())[:80], taint)
            if isinstance(n, ast.Assign) and len(n.targets) == 1 and isinstance(n.targets[0], ast.Subscript) and taint.cls != "int":
                # entries created in a mapping that outlives the function, one per element, in the order of the iteration: the mapping's own
                # order (what a later walk over it sees and writes) is then the arbitrary one
                base = n.targets[0].value
                root = base
                while isinstance(root, (ast.Attribute, ast.Subscript)):
                    root = root.value
                tv = {x.id for x in ast.walk(loop.target) if isinstance(x, ast.Name)}
                local = isinstance(base, ast.Name) and self.initial_binding(base.id) is not None
                if not local and tv & {x.id for x in ast.walk(n.targets[0].slice) if isinstance(x, ast.Name)} and isinstance(root, ast.Name):
                    self.report(n, "escape: `%s` creates the entries of a shared mapping in the order of an arbitrarily ordered collection" % " ".join(u(n).split())[:70], taint)
            if isinstance(n, ast.AugAssign) and isinstance(n.target, ast.Name) and isinstance(n.op, ast.Add):
                # string / list accumulation is order sensitive; numeric accumulation is not: decide by the initial binding
                init = self.initial_binding(n.target.id)
                if init is not None and (isinstance(init, (ast.JoinedStr, ast.List, ast.ListComp)) or (isinstance(init, ast.Constant) and isinstance(init.value, str))
                                         or (isinstance(init, ast.Call) and isinstance(init.func, ast.Attribute) and init.func.attr in ("format", "join"))):
                    self.report(n, "order-sensitive accumulation `%s` in a loop over an arbitrarily ordered collection" % u(n), taint)

    def initial_binding(self, name):
        for n in ast.walk(self.f.node):
            if isinstance(n, ast.Assign) and any(isinstance(t, ast.Name) and t.id == name for t in n.targets):
                return n.value
        return None

    # ---------------------------------------------------------------- expressions
    def ev_quiet(self, e, env):
        saved = self.findings
        self.findings = []
        try:
            return self.ev(e, env)
        finally:
            self.findings = saved

    def ev(self, e, env):
        if e is None or isinstance(e, ast.Constant):
            return None
        if isinstance(e, ast.Name):
            return env.get(e.id)
        if isinstance(e, ast.Attribute):
            base = self.ev(e.value, env)
            if e.attr == "free_symbols":
                if " ".join(u(e).split()) in self.single_texts:
                    return None            # behind `if len(<this>) > 1: raise`: a collection of at most one element has one order
                return self.src("set", "str", "%s (SymPy symbols hash from their names)" % u(e), e.lineno)
            if e.attr == "regrefs" and isinstance(e.ctx, ast.Load):
                return self.src("seq", "str", "%s (register order of a transform follows the set order of its free symbols)" % u(e), e.lineno)
            if e.attr in self.o.props:
                t = self.o.ret.get(self.o.props[e.attr].qual)
                if t is not None:
                    return self.src(t.kind, t.cls, "%s (property %s returns %s)" % (u(e), self.o.props[e.attr].qual, t.src), e.lineno)
                return None
            if e.attr in self.o.set_fields:
                return self.src("set", self.o.set_fields[e.attr], "%s (field initialised as a set)" % u(e), e.lineno)
            return None
        if isinstance(e, (ast.Set,)):
            for x in e.elts:
                self.ev(x, env)
            return self.src("set", hint_cls(e), "set display %s" % u(e)[:40], e.lineno) if len(e.elts) > 1 else None
        if isinstance(e, (ast.List, ast.Tuple)):
            for x in e.elts:
                t = self.ev(x.value if isinstance(x, ast.Starred) else x, env)
                if isinstance(x, ast.Starred) and t is not None and t.kind in ("set", "seq", "map"):
                    return t.as_("seq")
            return None
        if isinstance(e, ast.Dict):
            for k, v in zip(e.keys, e.values):
                if k is not None:
                    self.ev(k, env)
                t = self.ev(v, env)
                if k is None and t is not None and t.kind in ("map",):
                    return t
            return None
        if isinstance(e, (ast.ListComp, ast.GeneratorExp, ast.SetComp, ast.DictComp)):
            env2 = dict(env)
            src = None
            for g in e.generators:
                t = self.ev(g.iter, env2)
                if t is not None and t.kind in ("set", "seq", "map") and src is None:
                    src = t
                for n in ast.walk(g.target):
                    if isinstance(n, ast.Name):
                        env2[n.id] = None
                for c in g.ifs:
                    self.ev(c, env2)
            if isinstance(e, ast.DictComp):
                self.ev(e.key, env2)
                self.ev(e.value, env2)
            else:
                self.ev(e.elt, env2)
            if src is None:
                return None
            if isinstance(e, ast.SetComp):
                return src.as_("set")
            if isinstance(e, ast.DictComp):
                return src.as_("map")
            return src.as_("seq")
        if isinstance(e, ast.Subscript):
            t = self.ev(e.value, env)
            self.ev(e.slice, env)
            if t is not None and t.kind in ("seq", "set"):
                self.report(e, "indexing / slicing of an arbitrarily ordered sequence", t)
            if t is not None and t.kind == "setvals" and not isinstance(e.slice, ast.Slice):
                return Taint("set", t.cls, t.src, line=t.line)
            return None
        if isinstance(e, ast.Starred):
            return self.ev(e.value, env)
        if isinstance(e, ast.BinOp):
            a = self.ev(e.left, env)
            b = self.ev(e.right, env)
            if isinstance(e.op, (ast.BitOr, ast.BitAnd, ast.BitXor, ast.Sub)):
                t = a if a is not None and a.kind == "set" else (b if b is not None and b.kind == "set" else None)
                # set algebra on dictionary views yields a plain set, whatever the (insertion) order of the dictionaries was
                if t is None and any(isinstance(x, ast.Call) and isinstance(x.func, ast.Attribute) and x.func.attr in ("keys", "items") and not x.args for x in (e.left, e.right)):
                    t = self.src("set", hint_cls(e), "`%s` (set algebra on a dictionary view)" % " ".join(u(e).split())[:60], getattr(e, "lineno", 0))
                return t
            if isinstance(e.op, ast.Add):
                for t in (a, b):
                    if t is not None and t.kind in ("seq",):
                        return t
            if isinstance(e.op, ast.Mod) and isinstance(e.left, ast.Constant) and isinstance(e.left.value, str):
                if b is not None:
                    self.report(e, "text formatting of an arbitrarily ordered collection", b)
            return None
        if isinstance(e, ast.UnaryOp):
            self.ev(e.operand, env)
            return None
        if isinstance(e, ast.BoolOp):
            t = None
            for x in e.values:
                t = self.ev(x, env) or t
            return t
        if isinstance(e, ast.Compare):
            self.ev(e.left, env)
            for x in e.comparators:
                self.ev(x, env)
            return None
        if isinstance(e, ast.IfExp):
            self.ev(e.test, env)
            return self.ev(e.body, env) or self.ev(e.orelse, env)
        if isinstance(e, ast.JoinedStr):
            for x in e.values:
                if isinstance(x, ast.FormattedValue):
                    t = self.ev(x.value, env)
                    if t is not None:
                        self.report(e, "text formatting of an arbitrarily ordered collection", t)
            return None
        if isinstance(e, ast.Lambda):
            return None
        if isinstance(e, ast.NamedExpr):
            return self.ev(e.value, env)
        if isinstance(e, ast.Call):
            return self.call(e, env)
        if isinstance(e, ast.Slice):
            for x in (e.lower, e.upper, e.step):
                self.ev(x, env)
            return None
        return None

    def call(self, e, env):
        f = e.func
        fname = u(f)
        short = f.attr if isinstance(f, ast.Attribute) else (f.id if isinstance(f, ast.Name) else "")
        args = [(a, self.ev(a.value if isinstance(a, ast.Starred) else a, env)) for a in e.args]
        kws = [(k, self.ev(k.value, env)) for k in e.keywords]
        tainted = [(a, t) for a, t in args if t is not None]
        # --- calling a tainted callable
        ft = self.ev(f, env) if isinstance(f, (ast.Name, ast.Call)) else None
        if ft is not None and ft.kind == "callable":
            if e.args:
                self.report(e, "positional call of a function whose parameter order comes from an unordered collection", ft)
            return None
        # --- positional splat of a tainted sequence
        for a, t in args:
            if isinstance(a, ast.Starred) and t is not None and t.kind in ("seq", "set", "map") and short not in ("union", "intersection", "max", "min", "print"):
                self.report(e, "positional splat *%s of an arbitrarily ordered collection" % u(a.value), t)
        if isinstance(f, ast.Name) or (isinstance(f, ast.Attribute) and isinstance(f.value, ast.Name) and f.value.id in ("np", "numpy", "sym", "sympy", "collections", "itertools")):
            if short in ("set", "frozenset"):
                if e.args:
                    t = args[0][1]
                    if t is not None:
                        return t.as_("set")
                    return self.src("set", hint_cls(e.args[0]), "%s" % " ".join(u(e).split())[:60], e.lineno)
                return None
            if short in SANITISERS:
                return None
            if short in MATERIALISE or short in NP_SEQ:
                for a, t in tainted:
                    if t.kind in ("set", "seq", "map"):
                        return t.as_("seq")
                return None
            if short == "enumerate":
                for a, t in tainted:
                    if t.kind in ("set", "seq", "map"):
                        self.report(e, "enumerate() numbers the elements of an arbitrarily ordered collection", t)
                        return t.as_("seq")
                return None
            if short in ("zip", "zip_longest"):
                ts = [t for a, t in args]
                real = [t for t in ts if t is not None and t.kind in ("set", "seq", "map")]
                if real:
                    same = all(t is not None and t.binding is not None and t.binding == real[0].binding for t in ts)
                    if not same:
                        self.report(e, "zip pairs an arbitrarily ordered collection with another sequence by position", real[0])
                    return real[0].as_("seq")
                return None
            if short in ("dict", "OrderedDict"):
                for a, t in tainted:
                    if t.kind in ("seq", "map", "set"):
                        return t.as_("map")
                for k, t in kws:
                    if k.arg is None and t is not None:
                        return t
                return None
            if short in ("str", "repr", "format"):
                for a, t in tainted:
                    self.report(e, "text rendering of an arbitrarily ordered collection", t)
                return None
            if short == "next":
                for a, t in tainted:
                    self.report(e, "next() takes an arbitrary element", t)
                return None
            if short == "lambdify":
                if args and args[0][1] is not None and args[0][1].kind in ("seq", "set", "map"):
                    return args[0][1].as_("callable")
                return None
            if short in ("print",):
                for a, t in tainted:
                    self.report(e, "printing of an arbitrarily ordered collection", t)
                return None
            # package function: summary
            if isinstance(f, ast.Name):
                q = self.ix.resolve_name(self.f.mod, f.id)
                if q in self.ix.funcs:
                    return self.o.ret.get(q)
            return None
        if isinstance(f, ast.Attribute):
            recv = self.ev(f.value, env)
            if f.attr == "join":
                for a, t in tainted:
                    self.report(e, "join() concatenates an arbitrarily ordered collection", t)
                return None
            if f.attr in ("format", "format_map"):
                for a, t in tainted + [(k, t) for k, t in kws if t is not None]:
                    if t.kind != "callable":
                        self.report(e, "text formatting of an arbitrarily ordered collection", t)
                return None
            if f.attr in ("subs", "xreplace", "replace") and tainted:
                # SymPy substitutes the pairs of a *sequence* one after the other: with an arbitrarily ordered sequence the result
                # depends on which replacement is applied first whenever one replacement mentions another's symbol
                for a, t in tainted:
                    if t.kind in ("seq",):
                        self.report(e, "sequential substitution in the order of an arbitrarily ordered sequence", t)
                return None
            if recv is not None:
                if f.attr == "pop" and recv.kind == "set":
                    self.report(e, "set.pop() takes an arbitrary element", recv)
                    return None
                if f.attr in ("items", "keys", "values", "copy", "union", "intersection", "difference", "symmetric_difference", "flatten", "tolist", "nodes", "data"):
                    return recv
                if f.attr in ("index",) and recv.kind == "seq":
                    self.report(e, "position lookup in an arbitrarily ordered sequence", recv)
                return None
            if isinstance(f.value, ast.Name) and f.value.id == "self" and self.f.cls:
                q = "%s.%s" % (self.f.cls, f.attr)
                if q in self.ix.funcs:
                    return self.o.ret.get(q)
            return None
        return None
