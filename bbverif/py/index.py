"""P - symbol index over the handwritten modules (DESIGN 4.4)."""
import ast
import os

from .. import REPO
from ..report import Inconclusive

PKG = "blackbird_python/blackbird/"
HAND = ["auxiliary", "listener", "program", "utils", "error", "__init__"]


class Func:
    def __init__(self, mod, qual, node, cls=None):
        self.mod, self.qual, self.node, self.cls = mod, qual, node, cls
        self.name = node.name

    @property
    def params(self):
        a = self.node.args
        return [x.arg for x in a.posonlyargs + a.args + a.kwonlyargs]

    def __repr__(self):
        return "<Func %s>" % self.qual


class Index:
    def __init__(self, rep=None, modules=HAND, sources=None):
        """sources: optional dict module name -> source text (used by the positive controls and the self-test)"""
        self.mods = {}
        self.src = {}
        self.funcs = {}        # qual -> Func   e.g. listener.BlackbirdListener.exitStatement / auxiliary._expression
        self.classes = {}      # qual -> ClassDef
        self.imports = {}      # mod -> {local name: (module, name)}
        self.module_aliases = {}  # mod -> {alias: real module name}  (import numpy as np)
        for m in (sources if sources is not None else modules):
            rel = PKG + m + ".py"
            if sources is not None:
                src = sources[m]
            else:
                p = os.path.join(REPO, rel)
                if not os.path.exists(p):
                    raise Inconclusive("anchor module vanished: %s" % rel)
                src = open(p, encoding="utf-8").read()
            if rep is not None and sources is None:
                rep.file(rel, src)
            try:
                tree = ast.parse(src)
            except SyntaxError as e:
                raise Inconclusive("%s does not parse: %s" % (rel, e))
            self.mods[m] = tree
            self.src[m] = src
            self.imports[m] = {}
            self.module_aliases[m] = {}
            for n in tree.body:
                if isinstance(n, ast.ImportFrom):
                    for a in n.names:
                        self.imports[m][a.asname or a.name] = ((n.module or "").lstrip("."), a.name, n.level)
                elif isinstance(n, ast.Import):
                    for a in n.names:
                        self.module_aliases[m][a.asname or a.name.split(".")[0]] = a.name
                elif isinstance(n, (ast.FunctionDef, ast.AsyncFunctionDef)):
                    self.funcs["%s.%s" % (m, n.name)] = Func(m, "%s.%s" % (m, n.name), n)
                elif isinstance(n, ast.ClassDef):
                    self.classes["%s.%s" % (m, n.name)] = n
                    for f in n.body:
                        if isinstance(f, (ast.FunctionDef, ast.AsyncFunctionDef)):
                            q = "%s.%s.%s" % (m, n.name, f.name)
                            self.funcs[q] = Func(m, q, f, cls="%s.%s" % (m, n.name))
        # nested import inside functions (e.g. serialize imports NUMPY_TYPES lazily)
        for q, f in self.funcs.items():
            for n in ast.walk(f.node):
                if isinstance(n, ast.ImportFrom):
                    for a in n.names:
                        self.imports[f.mod].setdefault(a.asname or a.name, ((n.module or "").lstrip("."), a.name, n.level))

    # ---- lookup
    def func(self, qual):
        if qual not in self.funcs:
            raise Inconclusive("anchor function vanished: %s" % qual)
        return self.funcs[qual]

    def cls(self, qual):
        if qual not in self.classes:
            raise Inconclusive("anchor class vanished: %s" % qual)
        return self.classes[qual]

    def methods(self, clsqual):
        return {q.rsplit(".", 1)[1]: f for q, f in self.funcs.items() if f.cls == clsqual}

    def resolve_name(self, mod, name):
        """module-level function/class named `name` as seen from module `mod` -> qual or None"""
        q = "%s.%s" % (mod, name)
        if q in self.funcs or q in self.classes:
            return q
        imp = self.imports.get(mod, {}).get(name)
        if imp and imp[2] >= 1:
            q = "%s.%s" % (imp[0] or "__init__", imp[1])
            if q in self.funcs or q in self.classes:
                return q
            # re-export chain (e.g. __init__ imports from .listener)
            return self.resolve_name(imp[0], imp[1]) if imp[0] in self.mods and imp[0] != mod else None
        return None

    def properties(self):
        """name -> Func for @property getters (unique names only)"""
        out = {}
        dup = set()
        for q, f in self.funcs.items():
            if f.cls and any(isinstance(d, ast.Name) and d.id == "property" for d in f.node.decorator_list):
                if f.name in out:
                    dup.add(f.name)
                out[f.name] = f
        for d in dup:
            out.pop(d)
        return out

    def site(self, f, node=None):
        rel = PKG + f.mod + ".py"
        ln = getattr(node, "lineno", f.node.lineno)
        return "%s:%d %s" % (rel, ln, f.qual)

    def module_globals(self, mod):
        """module-level simple assignments name -> value node"""
        out = {}
        for n in self.mods[mod].body:
            if isinstance(n, ast.Assign):
                for t in n.targets:
                    if isinstance(t, ast.Name):
                        out[t.id] = n.value
            elif isinstance(n, ast.AnnAssign) and isinstance(n.target, ast.Name) and n.value is not None:
                out[n.target.id] = n.value
        return out


def u(node):
    return ast.unparse(node)


def walk_shallow(node):
    """ast.walk that does not descend into nested function/class definitions or lambdas"""
    todo = list(ast.iter_child_nodes(node))
    while todo:
        n = todo.pop()
        yield n
        if isinstance(n, (ast.FunctionDef, ast.AsyncFunctionDef, ast.ClassDef, ast.Lambda)):
            continue
        todo.extend(ast.iter_child_nodes(n))


def root_name(e):
    """x for x.a[b].c ... ; None otherwise"""
    while isinstance(e, (ast.Attribute, ast.Subscript)):
        e = e.value
    return e.id if isinstance(e, ast.Name) else None
