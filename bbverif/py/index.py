"""P - symbol index over the handwritten modules (DESIGN 4.4)."""
import ast
import os

from .. import REPO
from ..report import Inconclusive

PKG = "blackbird_python/blackbird/"
HAND = ["auxiliary", "listener", "program", "utils", "error", "__init__"]


GENERATED = ("blackbirdParser", "blackbirdLexer", "blackbirdListener")


def other_modules():
    """handwritten modules of the package besides the six of the pinned tree (new private modules a refactoring may introduce);
    ANTLR output is recognised by name or by its 'Generated from' header, the test package is not part of the library"""
    out = []
    d = os.path.join(REPO, PKG)
    if not os.path.isdir(d):
        return out
    for fn in sorted(os.listdir(d)):
        if not fn.endswith(".py"):
            continue
        m = fn[:-3]
        if m in HAND or m in GENERATED or m.startswith("test"):
            continue
        try:
            head = open(os.path.join(d, fn), encoding="utf-8").read(200)
        except (OSError, UnicodeDecodeError):
            continue
        if head.startswith("# Generated from"):
            continue
        out.append(m)
    return out


class Func:
    def __init__(self, mod, qual, node, cls=None):
        self.mod, self.qual, self.node, self.cls = mod, qual, node, cls
        self.name = node.name
        self.opaque = []       # decorators the normal form could not read (norm.compose_decorators)
        self.memo = []         # memoising decorators
        self.is_cm = False     # a @contextmanager generator function

    @property
    def params(self):
        a = self.node.args
        return [x.arg for x in a.posonlyargs + a.args + a.kwonlyargs]

    def __repr__(self):
        return "<Func %s>" % self.qual


# record types the rules know by name (their constructor calls and field reads are left as written)
KNOWN_RECORDS = frozenset(["utils.Command"])

# the functions the rules know by name (the anchors of properties.jsonl and their documented helpers, as confirmed by reading the pinned
# tree).  A function of the package that is *not* in this table is unknown to the rules and is analysed as part of its callers (see
# norm.inline_function); a function of this table that disappears makes the anchoring rule fail closed as before.
KNOWN_FUNCTIONS = frozenset("""
__init__.dump __init__.dumps __init__.load __init__.loads
auxiliary._expression auxiliary._func auxiliary._get_arguments auxiliary._literal auxiliary._number
error.BlackbirdErrorListener.syntaxError error.NoTraceBack.__init__
listener.BlackbirdListener.__init__ listener.BlackbirdListener.enterForloop listener.BlackbirdListener.enterProgram
listener.BlackbirdListener.enterStart listener.BlackbirdListener.exitArrayvar listener.BlackbirdListener.exitDeclarename
listener.BlackbirdListener.exitDeclaretype listener.BlackbirdListener.exitExpressionvar listener.BlackbirdListener.exitForloop
listener.BlackbirdListener.exitInclude listener.BlackbirdListener.exitProgram listener.BlackbirdListener.exitStatement
listener.BlackbirdListener.exitTarget listener.BlackbirdListener.exitVersion listener.BlackbirdListener.program
listener.RegRefTransform.__init__ listener.RegRefTransform.__str__ listener.is_ptype listener.parse
program.BlackbirdProgram.__call__ program.BlackbirdProgram.__init__ program.BlackbirdProgram.__len__ program.BlackbirdProgram.is_template
program.BlackbirdProgram.modes program.BlackbirdProgram.name program.BlackbirdProgram.operations program.BlackbirdProgram.parameters
program.BlackbirdProgram.programtype program.BlackbirdProgram.serialize program.BlackbirdProgram.target program.BlackbirdProgram.variables
program.BlackbirdProgram.version program.list_to_blackbird program.numpy_to_blackbird program.sympy_to_blackbird
utils.match_template utils.to_DiGraph
""".split())


class FuncTable(dict):
    """qualified name -> Func.  Old names of definitions that moved to another module of the package (and are re-exported from the old
    one) are answered by lookup - `table["listener.is_ptype"]` - but do not take part in iteration, so every function is visited once."""

    def __init__(self):
        super().__init__()
        self.alias = {}

    def __missing__(self, key):
        if key in self.alias:
            return dict.__getitem__(self, self.alias[key])
        raise KeyError(key)

    def get(self, key, default=None):
        if dict.__contains__(self, key):
            return dict.__getitem__(self, key)
        if key in self.alias:
            return dict.__getitem__(self, self.alias[key])
        return default

    def __contains__(self, key):
        return dict.__contains__(self, key) or key in self.alias


def _self_field(t):
    return t.attr if isinstance(t, ast.Attribute) and isinstance(t.value, ast.Name) and t.value.id == "self" else None


class Index:
    def canonical_fields(self):
        """private fields of the listener are known to the rules by the names of the pinned tree; a field that was renamed is recognised by its
        role (the field that receives the constructor's directory argument, the flag set on entering a loop, the mapping filled by include)
        and given its old name throughout the package.  Only a one-to-one renaming is undone: the old name must be unused."""
        self.field_renames = {}
        cls = None
        for q, c in self.classes.items():
            if q.startswith("listener.") and any(isinstance(f, ast.FunctionDef) and f.name == "exitInclude" for f in c.body):
                cls = c
        if cls is None:
            return
        meth = {f.name: f for f in cls.body if isinstance(f, ast.FunctionDef)}
        roles = {}
        init = meth.get("__init__")
        if init is not None:
            params = {a.arg for a in init.args.args[1:] + init.args.kwonlyargs}
            xs = {_self_field(t) for n in ast.walk(init) if isinstance(n, ast.Assign) and isinstance(n.value, ast.Name) and n.value.id in params and n.value.id == "cwd" for t in n.targets}
            roles["_cwd"] = xs - {None}
        ef = meth.get("enterForloop")
        if ef is not None:
            xs = {_self_field(t) for n in ast.walk(ef) if isinstance(n, ast.Assign) and isinstance(n.value, ast.Constant) and n.value.value is True for t in n.targets}
            roles["_in_for"] = xs - {None}
        ei = meth.get("exitInclude")
        if ei is not None:
            xs = {_self_field(t.value) for n in ast.walk(ei) if isinstance(n, ast.Assign) for t in n.targets if isinstance(t, ast.Subscript)}
            roles["_includes"] = xs - {None}
        used = {n.attr for t in self.mods.values() for n in ast.walk(t) if isinstance(n, ast.Attribute)}
        for old, xs in roles.items():
            if len(xs) == 1:
                new = next(iter(xs))
                if new != old and old not in used and new.startswith("_"):
                    self.field_renames[new] = old
        if self.field_renames:
            for t in self.mods.values():
                for n in ast.walk(t):
                    if isinstance(n, ast.Attribute) and n.attr in self.field_renames:
                        n.attr = self.field_renames[n.attr]

    def __init__(self, rep=None, modules=HAND, sources=None, inline=True):
        """sources: optional dict module name -> source text (used by the positive controls and the self-test)"""
        self.mods = {}
        self.src = {}
        self.funcs = FuncTable()        # qual -> Func   e.g. listener.BlackbirdListener.exitStatement / auxiliary._expression
        self.classes = {}      # qual -> ClassDef
        self.class_alias = {}  # old qual -> qual of the defining module, for classes that moved
        self.imports = {}      # mod -> {local name: (module, name)}
        self.module_aliases = {}  # mod -> {alias: real module name}  (import numpy as np)
        if sources is None and modules is HAND:
            modules = list(HAND) + other_modules()
        for m in (sources if sources is not None else modules):
            rel = PKG + m + ".py"
            if sources is not None:
                src = sources[m]
            else:
                p = os.path.join(REPO, rel)
                if not os.path.exists(p):
                    raise Inconclusive("anchor module vanished: %s" % rel)
                src = open(p, encoding="utf-8").read()
            if rep is not None and sources is None:
                rep.file(rel, src)
            try:
                tree = ast.parse(src)
            except SyntaxError as e:
                raise Inconclusive("%s does not parse: %s" % (rel, e))
            self.mods[m] = tree
            self.src[m] = src
            self.imports[m] = {}
            self.module_aliases[m] = {}
            for n in tree.body:
                if isinstance(n, ast.ImportFrom):
                    for a in n.names:
                        self.imports[m][a.asname or a.name] = ((n.module or "").lstrip("."), a.name, n.level)
                elif isinstance(n, ast.Import):
                    for a in n.names:
                        self.module_aliases[m][a.asname or a.name.split(".")[0]] = a.name
                elif isinstance(n, (ast.FunctionDef, ast.AsyncFunctionDef)):
                    self.funcs["%s.%s" % (m, n.name)] = Func(m, "%s.%s" % (m, n.name), n)
                elif isinstance(n, ast.ClassDef):
                    self.classes["%s.%s" % (m, n.name)] = n
                    for f in n.body:
                        if isinstance(f, (ast.FunctionDef, ast.AsyncFunctionDef)):
                            q = "%s.%s.%s" % (m, n.name, f.name)
                            self.funcs[q] = Func(m, q, f, cls="%s.%s" % (m, n.name))
        self.canonical_fields()
        # definitions the rules know by name that now live in another module of the package and are re-exported from the old one
        # (`from ._types import is_ptype` in listener.py): the old name stays an alias of the same Func / ClassDef
        known_classes = {q.rsplit(".", 1)[0] for q in KNOWN_FUNCTIONS if q.count(".") == 2}
        for cq in sorted(known_classes):
            if cq not in self.classes:
                m, name = cq.split(".")
                real = self.resolve_name(m, name) if m in self.mods else None
                if real in self.classes:
                    self.classes[cq] = self.classes[real]
                    self.class_alias[cq] = real
                    for q2, f in list(self.funcs.items()):
                        if f.cls == real:
                            self.funcs.alias["%s.%s" % (cq, f.name)] = q2
        for q in sorted(KNOWN_FUNCTIONS):
            if q not in self.funcs and q.count(".") == 1:
                m, name = q.split(".")
                real = self.resolve_name(m, name) if m in self.mods else None
                if real in self.funcs:
                    self.funcs.alias[q] = real
        # a known function that was renamed and keeps its old name as a module-level alias (`is_ptype = is_p_type`): the old name stays the
        # name of that definition, and the normal form spells calls through the new name with the known one
        self.renamed = {}       # mod -> {new local name: known name}
        for q in sorted(KNOWN_FUNCTIONS):
            if q not in self.funcs and q.count(".") == 1:
                m, name = q.split(".")
                if m not in self.mods:
                    continue
                v = self.module_globals(m).get(name)
                if isinstance(v, ast.Name) and "%s.%s" % (m, v.id) in self.funcs:
                    self.funcs.alias[q] = "%s.%s" % (m, v.id)
                    self.renamed.setdefault(m, {})[v.id] = name
        for m, ren in list(self.renamed.items()):
            for m2, imps in self.imports.items():
                for local, (src_mod, name, level) in imps.items():
                    if level >= 1 and src_mod == m and name in ren:
                        self.renamed.setdefault(m2, {})[local] = ren[name]
        self.known = frozenset(self.funcs[q].qual for q in KNOWN_FUNCTIONS if q in self.funcs)
        # analysis normal form: simple helpers are inlined into their callers (statement level), so that extracting a block of a handler
        # into a private function does not change what the structural rules see; the originals are kept as .orig
        if inline:
            from . import norm
            norm.strip_annotations(self)
            norm.drop_diagnostics(self)
            norm.compose_decorators(self)
            originals = {q: f.node for q, f in self.funcs.items()}
            for q, f in self.funcs.items():
                f.orig = originals[q]
            new = {}
            for q, f in self.funcs.items():
                if q != f.qual:
                    continue
                try:
                    new[q] = norm.normal_form(self, f, self.known)
                except RecursionError:
                    new[q] = f.node
            for q, f in self.funcs.items():
                if q == f.qual:
                    f.node = new[q]
            # the undecorated originals kept by compose_decorators have been read into their wrappers: they are not functions of the package
            for q in [q for q, f in self.funcs.items() if getattr(f, "decorated_original_of", None)]:
                wq = self.funcs[q].decorated_original_of
                name = self.funcs[q].name
                if not any(isinstance(n, (ast.Name, ast.Attribute)) and (getattr(n, "id", None) == name or getattr(n, "attr", None) == name) for n in ast.walk(self.funcs[wq].node)):
                    del self.funcs[q]
        # helpers that have been read into every caller: functions the rules do not know by name that no normal form refers to any more
        # (rules that judge every function on its own skip them: what they do is judged where it happens, in the caller)
        self.absorbed = set()
        if inline:
            referenced = set()
            for q, f in self.funcs.items():
                if q != f.qual:
                    continue
                for n in ast.walk(f.node):
                    if isinstance(n, ast.Name):
                        r = self.resolve_name(f.mod, n.id)
                        if r in self.funcs and self.funcs[r].qual != f.qual:
                            referenced.add(self.funcs[r].qual)
                    elif isinstance(n, ast.Attribute):
                        for q2, g in self.funcs.items():
                            if g.cls and g.name == n.attr and q2 != f.qual:
                                referenced.add(g.qual)
            for q, f in self.funcs.items():
                if q == f.qual and q not in self.known and q not in referenced and f.name.startswith("_") and not f.name.startswith("__"):
                    # only private helpers (a public function may be called from outside the package)
                    callers = [g for q2, g in self.funcs.items() if q2 == g.qual and g.qual != q and any(
                        (isinstance(n, ast.Name) and n.id == f.name) or (isinstance(n, ast.Attribute) and n.attr == f.name) for n in ast.walk(getattr(g, "orig", None) or g.node))]
                    if callers:
                        self.absorbed.add(q)
        # program order of the (normalised) trees: line numbers of inlined code point into the helper, so "A comes before B" is asked of
        # the position in the tree, never of line numbers
        for q, f in self.funcs.items():
            if q == f.qual:
                number_nodes(f.node)
        # nested import inside functions (e.g. serialize imports NUMPY_TYPES lazily)
        for q, f in self.funcs.items():
            for n in ast.walk(f.node):
                if isinstance(n, ast.ImportFrom):
                    for a in n.names:
                        self.imports[f.mod].setdefault(a.asname or a.name, ((n.module or "").lstrip("."), a.name, n.level))

    # ---- lookup
    def func(self, qual):
        if qual not in self.funcs:
            raise Inconclusive("anchor function vanished: %s" % qual)
        return self.funcs[qual]

    def cls(self, qual):
        if qual not in self.classes:
            raise Inconclusive("anchor class vanished: %s" % qual)
        return self.classes[qual]

    def methods(self, clsqual):
        return {q.rsplit(".", 1)[1]: f for q, f in self.funcs.items() if f.cls == clsqual}

    def resolve_name(self, mod, name):
        """module-level function/class named `name` as seen from module `mod` -> qual (of the defining module) or None"""
        q = self._resolve_name(mod, name)
        if q is None:
            return None
        if q in self.funcs.alias:
            return self.funcs.alias[q]
        return self.class_alias.get(q, q)

    def _resolve_name(self, mod, name):
        q = "%s.%s" % (mod, name)
        if q in self.funcs or q in self.classes:
            return q
        imp = self.imports.get(mod, {}).get(name)
        if imp and imp[2] >= 1:
            q = "%s.%s" % (imp[0] or "__init__", imp[1])
            if q in self.funcs or q in self.classes:
                return q
            # re-export chain (e.g. __init__ imports from .listener)
            return self._resolve_name(imp[0], imp[1]) if imp[0] in self.mods and imp[0] != mod else None
        return None

    def properties(self):
        """name -> Func for @property getters (unique names only)"""
        out = {}
        dup = set()
        for q, f in self.funcs.items():
            if f.cls and any(isinstance(d, ast.Name) and d.id == "property" for d in f.node.decorator_list):
                if f.name in out:
                    dup.add(f.name)
                out[f.name] = f
        for d in dup:
            out.pop(d)
        return out

    def site(self, f, node=None):
        rel = PKG + f.mod + ".py"
        ln = getattr(node, "lineno", f.node.lineno)
        return "%s:%d %s" % (rel, ln, f.qual)

    def single_assigned(self, mod):
        """module-level names bound exactly once in the module and never rebound / augmented / declared global in a function"""
        count = {}
        for n in ast.walk(self.mods[mod]):
            if isinstance(n, ast.Name) and isinstance(n.ctx, (ast.Store, ast.Del)):
                count[n.id] = count.get(n.id, 0) + 1
            elif isinstance(n, ast.Global):
                for x in n.names:
                    count[x] = count.get(x, 0) + 2
        top = set()
        for n in self.mods[mod].body:
            if isinstance(n, (ast.Assign, ast.AnnAssign)):
                for t in (n.targets if isinstance(n, ast.Assign) else [n.target]):
                    if isinstance(t, ast.Name):
                        top.add(t.id)
        return frozenset(x for x in top if count.get(x) == 1)

    def accessor_names(self):
        """names of the generated parse-tree accessors (rule names and token names of the shipped parser) plus the generic tree
        getters: calling one of them without arguments on a context object is a pure read"""
        if "_accessors" not in self.__dict__:
            import re
            names = {"getText", "getChildren", "getChildCount"}
            pth = os.path.join(REPO, PKG, "blackbirdParser.py")
            try:
                src = open(pth, encoding="utf-8").read()
                m = re.search(r"ruleNames\s*=\s*\[(.*?)\]", src, re.S)
                if m:
                    names |= set(re.findall(r"\"(\w+)\"", m.group(1)))
                m = re.search(r"symbolicNames\s*=\s*\[(.*?)\]", src, re.S)
                if m:
                    names |= {x for x in re.findall(r"\"(\w+)\"", m.group(1)) if x.isupper()}
            except OSError:
                pass
            self._accessors = frozenset(names)
        return self._accessors

    def const_env(self, mod):
        """(name -> value node, names) of the module-level constants visible in `mod` that are bound exactly once where they are defined
        and never rebound in `mod` itself (own definitions and names imported from other modules of the package)"""
        cache = self.__dict__.setdefault("_const_env", {})
        if mod in cache:
            return cache[mod]
        cache[mod] = ({}, frozenset())          # guards against import cycles while this module is being computed
        consts = {}
        own = self.module_globals(mod)
        single = self.single_assigned(mod)
        for k, v in own.items():
            if k in single:
                consts[k] = v
        rebound = set()
        for n in ast.walk(self.mods[mod]):
            if isinstance(n, ast.Name) and isinstance(n.ctx, (ast.Store, ast.Del)):
                rebound.add(n.id)
            elif isinstance(n, ast.Global):
                rebound.update(n.names)
        for local, (src_mod, name, level) in self.imports.get(mod, {}).items():
            if level >= 1 and src_mod in self.mods and src_mod != mod and local not in own and local not in rebound:
                c2, _ = self.const_env(src_mod)
                if name in c2:
                    consts[local] = c2[name]
        cache[mod] = (consts, frozenset(consts))
        return cache[mod]

    def module_globals(self, mod, follow=False, _depth=0):
        """module-level simple assignments name -> value node"""
        out = {}
        for n in self.mods[mod].body:
            if isinstance(n, ast.Assign):
                for t in n.targets:
                    if isinstance(t, ast.Name):
                        out[t.id] = n.value
            elif isinstance(n, ast.AnnAssign) and isinstance(n.target, ast.Name) and n.value is not None:
                out[n.target.id] = n.value
        # constants imported from another module of the package (moved tables stay visible under their old module)
        if follow and _depth < 3:
            for local, (src_mod, name, level) in self.imports.get(mod, {}).items():
                if level >= 1 and local not in out and src_mod in self.mods and src_mod != mod:
                    g = self.module_globals(src_mod, True, _depth + 1)
                    if name in g:
                        out[local] = g[name]
        return out


def u(node):
    return ast.unparse(node)


def number_nodes(root):
    i = 0
    todo = [root]
    while todo:
        n = todo.pop()
        n._ord = i
        i += 1
        todo.extend(reversed(list(ast.iter_child_nodes(n))))


def pos(n):
    """position of a node in program order (depth-first pre-order of its function's normalised tree)"""
    return getattr(n, "_ord", getattr(n, "lineno", 0))


def walk_shallow(node):
    """ast.walk that does not descend into nested function/class definitions or lambdas"""
    todo = list(ast.iter_child_nodes(node))
    while todo:
        n = todo.pop()
        yield n
        if isinstance(n, (ast.FunctionDef, ast.AsyncFunctionDef, ast.ClassDef, ast.Lambda)):
            continue
        todo.extend(ast.iter_child_nodes(n))


def root_name(e):
    """x for x.a[b].c ... ; None otherwise"""
    while isinstance(e, (ast.Attribute, ast.Subscript)):
        e = e.value
    return e.id if isinstance(e, ast.Name) else None
