"""Operator terms (DESIGN 4.6): syntax-directed translation of the evaluator's branch bodies into small algebraic terms,
after normalising the equivalent NumPy / Python operator idioms.  A form outside the idiom set is Inconclusive."""
import ast

from ..report import Inconclusive
from .index import u

BINOPS = {ast.Add: "add", ast.Sub: "sub", ast.Mult: "mul", ast.Div: "div", ast.Pow: "pow"}
NP_BIN = {"add": "add", "subtract": "sub", "multiply": "mul", "divide": "div", "true_divide": "div", "power": "pow", "float_power": "fpow"}
# np.negative is NOT the unary minus of the language: for a Python int it goes through a fixed-width integer (2**63 wraps), so it stays a
# library call in the terms and mismatches `neg`
NP_UN = {"reciprocal": "recip", "positive": "pos"}


def is_np(e, name):
    return isinstance(e, ast.Attribute) and isinstance(e.value, ast.Name) and e.value.id in ("np", "numpy") and e.attr == name


class TermEval:
    def __init__(self, single_accessors=(), evaluators=("_expression",), ctxvar="expr"):
        """single_accessors: accessor names that return ONE child in this branch (vs. a list)"""
        self.single = set(single_accessors)
        self.evaluators = set(evaluators)
        self.ctxvar = ctxvar

    def term(self, e, env):
        if isinstance(e, ast.Name):
            return env.get(e.id, ("name", e.id))
        if isinstance(e, ast.Constant):
            return ("const", e.value)
        if isinstance(e, ast.UnaryOp):
            t = self.term(e.operand, env)
            if isinstance(e.op, ast.USub):
                if t[0] == "const" and isinstance(t[1], (int, float)):
                    return ("const", -t[1])
                return ("neg", t)
            if isinstance(e.op, ast.UAdd):
                return t
            raise Inconclusive("operator term: unary %s" % type(e.op).__name__)
        if isinstance(e, ast.BinOp):
            if type(e.op) not in BINOPS:
                raise Inconclusive("operator term: binary %s" % type(e.op).__name__)
            return norm((BINOPS[type(e.op)], self.term(e.left, env), self.term(e.right, env)))
        if isinstance(e, ast.Subscript):
            b = self.term(e.value, env)
            if b == ("children",) and isinstance(e.slice, ast.Constant) and isinstance(e.slice.value, int):
                return ("child", e.slice.value)
            return ("index", b, self.term(e.slice, env))
        if isinstance(e, ast.Attribute):
            if is_np(e, "pi"):
                return ("const", "pi")
            return ("attr", self.term(e.value, env), e.attr)
        if isinstance(e, ast.Call):
            f = e.func
            if isinstance(f, ast.Name) and f.id in self.evaluators and len(e.args) == 1 and not e.keywords:
                return ("eval", self.term(e.args[0], env))
            if isinstance(f, ast.Name) and f.id in ("float", "int", "complex", "bool", "str") and len(e.args) == 1:
                return ("cast", f.id, self.term(e.args[0], env))
            if isinstance(f, ast.Attribute) and isinstance(f.value, ast.Name) and f.value.id == self.ctxvar and f.attr == "expression":
                if e.args and isinstance(e.args[0], ast.Constant):
                    return ("child", e.args[0].value)
                if not e.args:
                    return ("child", 0) if "expression" in self.single else ("children",)
            if isinstance(f, ast.Attribute) and isinstance(f.value, ast.Name) and f.value.id in ("np", "numpy"):
                name = f.attr
                kw = {k.arg: k.value for k in e.keywords}
                if name in ("sum", "prod") and len(e.args) == 1 and isinstance(e.args[0], (ast.List, ast.Tuple)) and len(e.args[0].elts) == 2:
                    ax = kw.get("axis")
                    if set(kw) - {"axis"} or (ax is not None and not (isinstance(ax, ast.Constant) and ax.value in (0, None))):
                        raise Inconclusive("operator term: np.%s with unusual keywords" % name)
                    a, b = (self.term(x, env) for x in e.args[0].elts)
                    return norm(("add" if name == "sum" else "mul", a, b))
                if name in NP_BIN and len(e.args) == 2 and not e.keywords:
                    return norm((NP_BIN[name], self.term(e.args[0], env), self.term(e.args[1], env)))
                if name in NP_UN and len(e.args) == 1 and not e.keywords:
                    t = self.term(e.args[0], env)
                    return t if NP_UN[name] == "pos" else norm((NP_UN[name], t))
                return ("call", "np." + name, tuple(self.term(a, env) for a in e.args), tuple(sorted((k, u(v)) for k, v in kw.items())))
            if isinstance(f, ast.Attribute):
                return ("method", self.term(f.value, env), f.attr, tuple(self.term(a, env) for a in e.args), tuple(sorted((k.arg, u(k.value)) for k in e.keywords)))
            if isinstance(f, ast.Name):
                return ("call", f.id, tuple(self.term(a, env) for a in e.args), tuple(sorted((k.arg, u(k.value)) for k in e.keywords)))
        if isinstance(e, (ast.List, ast.Tuple)):
            return ("tuple",) + tuple(self.term(x, env) for x in e.elts)
        if isinstance(e, ast.IfExp):
            return ("ifexp", ("src", " ".join(u(e.test).split())), self.term(e.body, env), self.term(e.orelse, env))
        if isinstance(e, ast.Compare) or isinstance(e, ast.BoolOp):
            return ("src", " ".join(u(e).split()))
        return ("opaque", " ".join(u(e).split())[:60])

    # ---- straight-line branch bodies with token tests
    def paths(self, stmts, env, conds=()):
        """-> list of (conds, term | 'RAISE' | 'FALL', env)   conds: tuple of (test-source, bool)"""
        env = dict(env)
        for i, s in enumerate(stmts):
            if isinstance(s, ast.Return):
                return [(conds, self.term(s.value, env) if s.value is not None else ("const", None), env)]
            if isinstance(s, ast.Raise):
                return [(conds, "RAISE", env)]
            if isinstance(s, ast.Assign) and len(s.targets) == 1:
                t = s.targets[0]
                if isinstance(t, ast.Name):
                    env[t.id] = self.term(s.value, env)
                    continue
                if isinstance(t, (ast.Tuple, ast.List)) and all(isinstance(x, ast.Name) for x in t.elts):
                    v = self.term(s.value, env)
                    for k, x in enumerate(t.elts):
                        env[x.id] = ("child", k) if v == ("children",) else ("index", v, ("const", k))
                    continue
                self.side_effects = getattr(self, "side_effects", []) + [" ".join(u(s).split())[:70]]
                continue
            if isinstance(s, ast.If):
                rebind = self.guarded_rebinding(s, env)
                if rebind is not None:
                    env.update(rebind)
                    continue
                src = " ".join(u(s.test).split())
                out = []
                out += self.paths(s.body + stmts[i + 1:], env, conds + ((src, True),))
                out += self.paths(s.orelse + stmts[i + 1:], env, conds + ((src, False),))
                return out
            if isinstance(s, ast.Expr) and isinstance(s.value, ast.Constant):
                continue
            if isinstance(s, (ast.Assign, ast.AugAssign, ast.Expr)):
                # a statement with an effect outside the value computation (e.g. filling a cache): the value terms are still read off the returns
                self.side_effects = getattr(self, "side_effects", []) + [" ".join(u(s).split())[:70]]
                continue
            if isinstance(s, ast.Pass):
                continue
            # `try: x = <cast>(x) except E: pass`: the converted value where the conversion does not raise E, else the value itself
            if isinstance(s, ast.Try) and not s.finalbody and not s.orelse and len(s.body) == 1 and isinstance(s.body[0], ast.Assign) and len(s.body[0].targets) == 1 \
                    and isinstance(s.body[0].targets[0], ast.Name) and s.handlers and all(len(h.body) == 1 and isinstance(h.body[0], ast.Pass) for h in s.handlers) \
                    and any(isinstance(n, ast.Name) and n.id == s.body[0].targets[0].id for n in ast.walk(s.body[0].value)):
                name = s.body[0].targets[0].id
                old = env.get(name, ("name", name))
                new = self.term(s.body[0].value, {**env, name: old})
                env[name] = ("try", new, old, tuple(sorted(u(h.type) if h.type is not None else "BaseException" for h in s.handlers)))
                continue
            if isinstance(s, ast.Try) and not s.finalbody:
                # the value terms of the protected block (and of its else clause) are read off as if it were inline; a handler contributes
                # its own paths (it runs instead of the rest of the protected block)
                out = self.paths(s.body + s.orelse + stmts[i + 1:], env, conds)
                for h in s.handlers:
                    src = "except %s" % (u(h.type) if h.type is not None else "")
                    out += self.paths(h.body + stmts[i + 1:], env, conds + ((src, True),))
                return out
            raise Inconclusive("operator term: statement `%s`" % u(s)[:60])
        return [(conds, "FALL", env)]

    def guarded_rebinding(self, s, env):
        """`if <guard on x>: x = <cast>(x)` with no else -> {x: ite(guard, cast(x), x)}"""
        if s.orelse or len(s.body) != 1 or not isinstance(s.body[0], ast.Assign):
            return None
        a = s.body[0]
        if len(a.targets) != 1 or not isinstance(a.targets[0], ast.Name):
            return None
        name = a.targets[0].id
        if not any(isinstance(n, ast.Name) and n.id == name for n in ast.walk(s.test)):
            return None
        old = env.get(name, ("name", name))
        new = self.term(a.value, {**env, name: old})
        return {name: ("ite", s.test, name, new, old)}


def norm(t):
    """idiom normalisation: add(x, neg(y)) = sub(x, y); mul(x, inv(y)) = x * y**-1 (kept as 'mulinv'); pow(x, -1) = inv(x)"""
    if t[0] == "pow" and t[2] == ("const", -1):
        return ("inv", t[1])
    if t[0] == "add" and isinstance(t[2], tuple) and t[2][0] == "neg":
        return ("sub", t[1], t[2][1])
    if t[0] == "mul" and isinstance(t[2], tuple) and t[2][0] in ("inv", "recip"):
        return ("mulinv", t[1], t[2][1], t[2][0])
    return t


def contains(t, pred):
    if isinstance(t, tuple):
        if t and isinstance(t[0], str) and pred(t):
            return True
        return any(contains(x, pred) for x in t if isinstance(x, tuple))
    return False


def definite(t):
    """a term that the extractor fully understood (no opaque parts): a mismatch with the specification is then a refutation, not an unknown idiom"""
    return t in ("RAISE", "FALL") or not contains(t, lambda x: x[0] in ("opaque",))


def casts_operand(t):
    return contains(t, lambda x: x[0] == "cast" and len(x) == 3 and contains(x[2], lambda y: y[0] == "eval"))


def show(t):
    if not isinstance(t, tuple):
        return str(t)
    if not t:
        return "()"
    if not isinstance(t[0], str):
        return "(%s)" % ", ".join(show(x) for x in t)
    if t[0] == "ite":
        return "ite(%s, %s, %s)" % (" ".join(u(t[1]).split()), show(t[3]), show(t[4]))
    if t[0] in ("const", "name", "src", "opaque"):
        return str(t[1])
    if t[0] == "child":
        return "child%d" % t[1]
    if t[0] == "eval":
        return "E(%s)" % show(t[1])
    return "%s(%s)" % (t[0], ", ".join(show(x) for x in t[1:]))
